#!/bin/bash
# run the seeded changes against their checks, one after the other (they share /repo)
# usage: mutall.sh "<id>:<props,comma>" ...
cd /verif
for spec in "$@"; do
  id=${spec%%:*}; props=${spec#*:}
  echo "#### seeded $id -> ${props//,/ }"
  ./mutcheck.sh /verif/seeded/$id/patch.diff ${props//,/ }
done
echo "#### done"

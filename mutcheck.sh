#!/bin/bash
# usage: mutcheck.sh <patch.diff> <prop> [<prop> ...]
# applies a seeded change to /repo, runs the quick checks of the given properties, reverts the change.
patch=$1; shift
cd /repo || exit 2
if ! git diff --quiet; then echo "/repo has uncommitted changes"; exit 2; fi
git apply "$patch" || { echo "patch does not apply"; exit 2; }
cd /verif
for p in "$@"; do
  out=$(./check run $p --tier quick 2>&1 | grep "VIOLATION\|signature\|ok tier\|FAILED tier\|KNOWN-FINDING" | cut -c1-220)
  echo "== $p"; echo "$out"
done
git -C /repo checkout -- .
git -C /repo status --short | grep -v '^??'

#!/usr/bin/env python3
"""round-4 seeded changes: meta.json (results taken from seeded/results.json)"""
import json, os, re
ROOT = os.path.join(os.path.dirname(os.path.abspath(__file__)), "..", "seeded")
T = {
 "C01d": ("C01", "ILLlib_solution copies reduced costs with rc[i] = temprc[i] instead of temprc[structmap[i]]", "a structural column added after rows (structmap not the identity) and a solve through mpq_QSopt_primal / mpq_QSopt_dual; the exact driver recomputes rc and is unaffected"),
 "C04d": ("C04", "ILLfct_update_dpII_prices applies the bound-flip correction of xbz over srhs->nzcnt entries instead of ssoln->nzcnt", "direct rational dual simplex, scaling off, dual steepest edge, boxed columns flipping in a late phase-II pivot with fewer than 25 pivots since the last refactorization: INFEASIBLE for an LP with optimum 75/2"),
 "C08d": ("C08", "LP writer fix_names no longer records generated replacement names in its symbol table", "a name repaired to its index (contains a blank, or is free/inf/infinity) plus another name that is the decimal string of the same index: both are written as x<i> and merge on reading"),
 "C10d": ("C10", "transferObjective copies an objective coefficient instead of adding it", "a variable that appears more than once in the objective (LP: repeated term; MPS: two COLUMNS entries for the N row)"),
 "C11d": ("C11", "ILLlib_readbasis tests the column index instead of the row index after the row-name lookup (XL/XU lines)", "basis file with an XL/XU line naming a known column and an unknown row: write to rstat[-1]"),
 "C15d": ("C15", "matrix_addrow_end re-packs the column store without reserving a slot for still-empty columns", "row-wise build (QSnew_col, then QSadd_row) beyond 1000 non-zeros with a column that is empty at re-pack time and receives its first coefficient later; row order decides"),
 "C17d": ("C17", "ILLlib_addcol no longer clears intmarker[nstruct] of the new column (the array is grown with realloc)", "problem read from a file that declares an integer column, then QSnew_col/QSadd_col(s), then QSget_intflags or QSwrite_prob: result depends on heap contents; no out-of-bounds access"),
 "C05d": ("C05", "QSchange_objcoef gets an 'unchanged coefficient, keep the stored solution' shortcut that compares with obj[indx] (structural index used as internal column index)", "column added after rows (structmap not the identity), OPTIMAL solve, QSchange_objcoef of that column to the value internal column indx holds (e.g. 0, a logical's cost): accessors and the direct simplex serve the stale optimum"),
 "C12d": ("C12", "ILLfct_check_dfeasible flags a positive reduced cost only for at-upper non-basic columns, no longer for FREE ones", "supplied non-singular basis with a free structural column non-basic (status FREE) and exact reduced cost > 0: verdict functions answer optimal / dual feasible"),
 "C16d": ("C16", "QScopy_prob_mpq_mpf takes the numeric parameters (time limit, objective limits) through a double", "finite objective limit that is not a double (1000/3), QScopy_prob_mpq_mpf, mpf_QSget_param_EGlpNum on the copy: only 53 bits agree"),
 "C20d": ("C20", "monitor_iter reports 'bound reached' with fprintf(stderr) instead of QSlog", "finite QS_PARAM_OBJULIM on a MIN problem (OBJLLIM on MAX) below the optimum, dual simplex: the dual objective crosses the limit (status OBJ_LIMIT)"),
 "C13d": ("C13", "btranu3_process2 (sparse U^T solve of ILLfactor_btran) returns early on an exactly zero node value and skips the successors' delay bookkeeping", "basis dimension above 20 (sparse btran path), unit right-hand side (QSget_binv_row), exact cancellation at a U node that shares successors with another path (+1/-1 network-like columns)"),
 "C19d": ("C19", "bzip2 branch of EGioGets returns NULL at end of stream even when bytes of an unterminated last line were read", ".bz2 problem or basis file whose last line lacks the trailing newline"),
}
res = json.load(open(os.path.join(ROOT, "results.json")))
for sid, (prop, what, needs) in T.items():
    d = os.path.join(ROOT, sid)
    if not os.path.isdir(d):
        continue
    files = re.findall(r"^\+\+\+ b/(\S+)", open(os.path.join(d, "patch.diff")).read(), re.M)
    demo = "demo.c" if os.path.exists(os.path.join(d, "demo.c")) else "demo.sh"
    meta = dict(id=sid, breaks_property=prop, change=what, files=files, needs_to_manifest=needs,
                origin="round 4: written by a fresh sub-agent that saw only the property text, a scratch worktree of /repo, and the earlier sites it had to stay away from",
                confirmed_by=["seedverify.sh: fresh worktree of /repo HEAD; clean tree: demonstration exits 0; with patch.diff: `make -j16 check` 20/20 PASS and demonstration exits non-zero"],
                demonstration=demo, checks_run=res.get(sid, {}))
    json.dump(meta, open(os.path.join(d, "meta.json"), "w"), indent=1)
    print("wrote", sid)

/* random search that exposed the stale row-major copy after QSchange_sense on file-read problems (14 mismatches in 3000 before fix fdecd5f, 0 after).
 * build: gcc -DHAVE_CONFIG_H -I<repo> -I<repo>/qsopt_ex chgsense_stale_rowcopy.c <repo>/.libs/libqsopt_ex.a -lgmp -lz -lbz2 -lm -lpthread */
#include <stdio.h>
#include <stdlib.h>
#include <string.h>
#include <gmp.h>
#include "QSopt_ex.h"
static unsigned long long S=88172645463325252ULL;
static unsigned rnd(unsigned n){ S^=S<<13; S^=S>>7; S^=S<<17; return (unsigned)((S>>20)%n); }
int main(int argc,char**argv){
  QSexactStart(); QSexact_set_precision(128);
  int iters = argc>1?atoi(argv[1]):2000; int bad=0;
  for(int it=0; it<iters; it++){
    int n=3+rnd(5), m=4+rnd(5);
    FILE*f=fopen("rs.lp","w");
    fprintf(f,"Minimize\n obj:");
    for(int j=0;j<n;j++) fprintf(f," + %d x%d",1+rnd(9),j);
    fprintf(f,"\nSubject To\n");
    for(int i=0;i<m;i++){ fprintf(f," c%d:",i); int k=0; for(int j=0;j<n;j++) if(rnd(3)==0||(!k&&j==n-1)){ fprintf(f," %c %d x%d", rnd(4)?'+':'-',1+rnd(5),j); k++;} fprintf(f," %s %d\n", rnd(3)?">=":"<=", (int)rnd(12)); }
    fprintf(f,"Bounds\n"); for(int j=0;j<n;j++) fprintf(f," x%d <= %d\n",j,1+rnd(6));
    fprintf(f,"End\n"); fclose(f);
    mpq_QSprob p=mpq_QSread_prob("rs.lp","LP"); if(!p){continue;}
    mpq_QSset_param(p,QS_PARAM_SIMPLEX_DISPLAY,0);
    int st=0; mpq_QSopt_dual(p,&st);
    int nch=1+rnd(2);
    for(int c=0;c<nch;c++){ int r=rnd(m); char ns="LGE"[rnd(3)]; mpq_QSchange_sense(p,r,ns); }
    mpq_QSprob q=mpq_QScopy_prob(p,"c");
    int st1=0,st2=0; mpq_t v1,v2; mpq_init(v1); mpq_init(v2);
    mpq_QSset_param(p,QS_PARAM_SIMPLEX_MAX_ITERATIONS,5000);
    int r1=mpq_QSopt_dual(p,&st1); int r2=QSexact_solver(q,NULL,NULL,NULL,DUAL_SIMPLEX,&st2);
    if(st1==1) mpq_QSget_objval(p,&v1); if(st2==1) mpq_QSget_objval(q,&v2);
    if(r1||r2||st1!=st2||(st1==1&&!mpq_equal(v1,v2))){ bad++; gmp_printf("MISMATCH it=%d r1=%d st1=%d v1=%Qd | r2=%d st2=%d v2=%Qd\n",it,r1,st1,v1,r2,st2,v2); char cmd[64]; sprintf(cmd,"cp rs.lp bad_%d.lp",it); if(bad<4) system(cmd);}
    mpq_clear(v1); mpq_clear(v2); mpq_QSfree_prob(p); mpq_QSfree_prob(q);
  }
  printf("done bad=%d\n",bad); return 0;
}

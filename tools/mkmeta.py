#!/usr/bin/env python3
"""(re)write seeded/<id>/meta.json from the table below + confirm.log + results recorded in seeded/results.json"""
import json, os, re
ROOT = os.path.join(os.path.dirname(os.path.abspath(__file__)), "..", "seeded")
T = {
 "C01": ("C01", "QSexact_optimal_test checks 'logical above its upper bound' only for ranged rows, so an equality row with a small positive residual passes the exact test",
         "the double stage must stop at a basis where the logical of an '=' row is basic with a tiny positive value (rhs <= ~1e-6, or two nearly dependent equalities); primal start"),
 "C02": ("C02", "QSexact_infeasible_test: the guard against dual weight on an infinite lower bound rewritten with mpq_cmp(...) < 0 instead of <= 0, so it never fires",
         "a feasible LP with a free/lower-unbounded column whose coefficient is below 1e-150 in magnitude, so that the floating-point stages see 0 and propose a ray leaning on that column's -infinity bound"),
 "C03": ("C03", "ILLratio_pII_test declares the LP unbounded before looking at the bound flip of a boxed entering variable",
         "primal simplex start and a variable with two finite bounds that enters in phase II with no blocking basic variable (e.g. appears only in >= rows with positive coefficients)"),
 "C04": ("C04", "ILLratio_longdII_test stops its breakpoint loop with IsLess instead of IsLeq against the (zero, in mpq) tolerance",
         "direct rational dual simplex (mpq_QSopt_dual), phase II, a leaving row whose only entering candidates are boxed columns whose flips remove the infeasibility exactly"),
 "C05": ("C05", "ILLlib_delrows compacts the cached pi/slack arrays starting at dellist[0] instead of 0",
         "an OPTIMAL direct solve leaving a cache, then QSdelete_rows of >= 2 non-tight rows with an unsorted index list whose first element is not the minimum"),
 "C06": ("C06", "matrix_addcoef increments matcnt before testing whether the column ends at the end of the used matrix space, so matfree is not decremented",
         "QSchange_coef creating a new nonzero in the column stored last in the matrix array, followed by any append (new column/row); only QSget_coef/rows/columns see the overwritten entry"),
 "C07": ("C07", "ILLlib_addcol's up-front row-index validation removed; the call is still rejected later by matrix_addcol, after the name was registered",
         "QSadd_col/QSadd_cols with an out-of-range row index, then a name lookup or another column addition on the same problem"),
 "C08": ("C08", "ILLraw_default_lower treats a column with bounds (-inf, 0] as having the default lower bound, so the writers emit only 'x <= 0'",
         "a column with lower = -infinity and upper exactly 0"),
 "C09": ("C09", "ILLraw_default_upper treats upper == 1 as the default for every integer column, not only for those with lower bound 0",
         "an integer column with upper bound exactly 1 and lower bound other than 0 (e.g. [-1,1] or (-inf,1])"),
 "C10": ("C10", "mpq_EGlpNumReadStrXc applies the exponent with one mpz_mul_ui by 10^|e| computed in an unsigned long (wraps for |e| >= 20)",
         "a number literal in exponent form with |exponent| >= 20 anywhere in an LP or MPS file"),
 "C11": ("C11", "convert_rawlpdata_to_lpdata clears raw->name only at the end, so a failed conversion frees the problem name twice",
         "an MPS file that passes the parser but is rejected during conversion (only N rows / OBJNAME selecting a row with a RANGES entry / no usable column)"),
 "C12": ("C12", "ILLfct_compute_dobj skips nonbasic fixed/artificial columns, dropping dz*l of fixed columns with non-zero value from the dual objective",
         "an LP with a fixed structural variable (l = u != 0) that is nonbasic with non-zero reduced cost; caller asks QSexact_basis_dualstatus / QSexact_verify for the dual bound"),
 "C13": ("C13", "ILLfactor_ftrane2 (hyper-sparse row-eta pass) no longer zeroes work_coef[r] when an eta cancels an entry exactly",
         "dimension >= 21 with a 1-entry right-hand side (hyper-sparse path), >= 2 row-etas since the last refactorization, one eta cancelling a nonzero to exactly 0 and a later eta reading that row"),
 "C14": ("C14", "ILLlib_readbasis's 'correct the free variables' loop tests lower[j]/upper[j] with the structural index instead of structmap[j]",
         "rows created before columns (structmap[j] != j: QSload_prob, QScopy_prob, columns added after rows) and a free column in the problem"),
 "C15": ("C15", "ILLratio_pII_test skips basic variables of type VFREE/VFIXED, so a basic fixed structural no longer blocks the step",
         "primal simplex, a fixed structural variable basic in phase II (crash basis for >= 200 rows or >= 400 columns, or a warm-start basis) and an improving column blocked only by it"),
 "C16": ("C16", "QScopy_prob passes upper[j] (structural index) instead of upper[structmap[j]] when adding the columns to the copy",
         "a problem whose rows existed before some structural column (rows-first construction, column added after rows, or a copy of a copy)"),
 "C17": ("C17", "ILLlib_chgrange allocates rangeval with nrows instead of rowsize entries on the first QSchange_range",
         "a problem with spare row capacity and no ranged row yet: QSchange_sense(r,'R') + QSchange_range as the first range, then QSadd_row/QSnew_row before the next growth (heap write past the array)"),
 "C18": ("C18", "primal_phaseI_step frees its pIpiz/pIdz work arrays only when newphase == SIMPLEX_PHASE_NEW although they are re-allocated whenever newphase != 0",
         "primal simplex whose phase I is still infeasible when a recompute fires (refactorization or > 500 consecutive phase-I pivots): e.g. 520+ rows with one private column each"),
 "C19": ("C19", "same site as the C01 change (QSexact_optimal_test, equality-row logical above its bound unchecked), demonstrated through the esolver sequence read file -> QSexact_solver -> QSexact_print_sol",
         "an LP file with two equality rows contradicting each other by less than the double feasibility tolerance (x + y = 1, x + y = 1.000000000001)"),
 "C20": ("C20", "QSget_objval's 'LP has been modified' rejection reports through ILL_ERROR (fprintf to stderr) instead of QSlog",
         "a problem in state MODIFIED (solve, change something) and a call of QSget_objval before re-solving"),
}
res = {}
rp = os.path.join(ROOT, "results.json")
if os.path.exists(rp):
    res = json.load(open(rp))
for sid, (prop, what, needs) in T.items():
    d = os.path.join(ROOT, sid)
    if not os.path.isdir(d):
        continue
    conf = open(os.path.join(d, "confirm.log")).read() if os.path.exists(os.path.join(d, "confirm.log")) else ""
    files = re.findall(r"^\+\+\+ b/(\S+)", open(os.path.join(d, "patch.diff")).read(), re.M)
    meta = dict(id=sid, breaks_property=prop, change=what, files=files, needs_to_manifest=needs,
                origin="written by a fresh sub-agent that saw only the property text and a scratch worktree",
                confirmed_by=["seedverify.sh: fresh worktree of /repo HEAD; clean tree: demo exits 0; with patch.diff: `make -j16 check` 20/20 PASS and demo exits non-zero"],
                demonstration="demo.c" + (" + near.lp" if sid == "C19" else ""),
                checks_run=res.get(sid, {}))
    json.dump(meta, open(os.path.join(d, "meta.json"), "w"), indent=1)
    print("wrote", sid)

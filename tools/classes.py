#!/usr/bin/env python3
"""print evidence classes of a property whose label contains one of the given substrings"""
import json, sys
p = sys.argv[1]; keys = sys.argv[2:]
d = json.load(open('/verif/evidence/%s.json' % p))
cl = d['coverage'].get('classes', {})
print(p, 'evaluations', d['coverage']['evaluations'], 'nontrivial', d['coverage']['distinct_nontrivial'])
for k in sorted(cl):
    if not keys or any(s in k for s in keys):
        print('  %-60s %s' % (k, cl[k]))

#!/usr/bin/env python3
"""parse a mutall.sh log into {seeded id: {property: 'caught <sigs>' | 'missed'}}"""
import sys, json, re
out = {}
cur = None; prop = None; sigs = []
def flush():
    global sigs
    if cur and prop:
        pass
for line in open(sys.argv[1], errors='replace'):
    line = line.rstrip('\n')
    m = re.match(r'#### seeded (\S+) ->', line)
    if m:
        cur = m.group(1); out.setdefault(cur, {}); prop = None; continue
    m = re.match(r'== (C\d+)', line)
    if m:
        prop = m.group(1); sigs = []; continue
    m = re.match(r'\s+signature: (.*)', line)
    if m and cur and prop:
        sigs.append(m.group(1).strip()); continue
    m = re.match(r'(C\d+) (ok|FAILED) tier=(\w+)', line)
    if m and cur and prop:
        out[cur][prop] = ('caught ' + ', '.join(sorted(set(sigs)))) if m.group(2) == 'FAILED' else 'missed'
print(json.dumps(out, indent=1))

#!/usr/bin/env python3
"""round-3 seeded changes: meta.json"""
import json, os, re
ROOT = os.path.join(os.path.dirname(os.path.abspath(__file__)), "..", "seeded")
T = {
 "C02c": ("C02", "infeasible_output zeroes multipliers of the 'wrong' sign after the exact test, treating ranged rows like G rows", "infeasible LP whose Farkas proof needs the upper side of a ranged row; QSexact_solver with a non-NULL y"),
 "C03c": ("C03", "ILLprice_primal always takes the entering direction from the phase-II reduced cost, also in primal phase I", "LP that needs primal phase I with a free variable that has to enter decreasing (objective coefficient 0): error return / ITER_LIMIT instead of a definitive status"),
 "C05c": ("C05", "QSchange_bounds repairs the stored basis for column i instead of collist[i]", "solve or load a basis, QSchange_bounds with collist[i] != i making the bound a nonbasic column rests on infinite (or bounding a free nonbasic column), re-solve with the direct simplex"),
 "C06c": ("C06", "ILLlib_delrows marks the freed tail slots after writing the empty-column marker, overwriting it", "row delete that empties a column, then a new nonzero in the column stored before it, then a coefficient for the emptied column"),
 "C07c": ("C07", "QSadd_cols resets factorok after a rejected call only if the column count changed", "direct solve, rejected QSadd_cols whose first invalid column is not the first, valid objective/rhs change, direct re-solve (NULL dereference)"),
 "C09c": ("C09", "MPS reader stores a RANGES entry only when it is non-zero", "input MPS file with a RANGES value of 0 on an L or G row (denotes an equation)"),
 "C12c": ("C12", "QSexact_optimal_test recomputes the logical of a tight non-basic row when its multiplier is zero instead of requiring exact tightness", "dual degenerate vertex whose coordinates have denominators above 2^28 (beyond the double-to-rational conversion), rounding on the feasible side"),
 "C13c": ("C13", "compute_zA3 (sparse row-wise z*A) skips non-basic fixed columns", "QSget_tableau_row on an LP with a non-basic fixed structural column, a B^-1 row with fewer than nrows/2 non-zeros"),
 "C14c": ("C14", "QSread_and_load_basis keeps factorok when the column statuses equal those of the current basis (row statuses are not compared)", "solved problem, basis file differing from the current basis in row statuses only, QSread_and_load_basis, QSopt_dual"),
 "C16c": ("C16", "ILLlib_addrow grows/creates the range array only if it already exists (the `|| sense == 'R'` dropped)", "original whose first row is ranged: every copy path loses the range"),
 "C18c": ("C18", "ILLprice_load_rownorms / load_colnorms no longer free the previous norm array", "dual steepest-edge solve followed by two consecutive QSadd_row(s) calls without a solve in between"),
 "C20c": ("C20", "QSwrite_prob falls back to stdout when the file cannot be opened (and returns 0)", "handler installed, QSwrite_prob to a path that cannot be opened for writing"),
}
res = {}
rp = os.path.join(ROOT, "results.json")
if os.path.exists(rp):
    res = json.load(open(rp))
for sid, (prop, what, needs) in T.items():
    d = os.path.join(ROOT, sid)
    if not os.path.isdir(d):
        continue
    files = re.findall(r"^\+\+\+ b/(\S+)", open(os.path.join(d, "patch.diff")).read(), re.M)
    meta = dict(id=sid, breaks_property=prop, change=what, files=files, needs_to_manifest=needs,
                origin="round 3: written by a fresh sub-agent that saw only the property text, a scratch worktree, and the two earlier sites it had to stay away from",
                confirmed_by=["seedverify.sh: fresh worktree of /repo HEAD; clean tree: demo exits 0; with patch.diff: `make -j16 check` 20/20 PASS and demo exits non-zero"],
                demonstration="demo.c", checks_run=res.get(sid, {}))
    json.dump(meta, open(os.path.join(d, "meta.json"), "w"), indent=1)
    print("wrote", sid)

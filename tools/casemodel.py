#!/usr/bin/env python3
"""Parse a replay case's prob/col/row ops into a python model (Fractions); print as LP text."""
import sys
from fractions import Fraction as F
INF = F(int(1e150))
def num(s):
    if s == 'inf': return INF
    if s == '-inf': return -INF
    return F(s)
def load(path):
    cols=[]; rows=[]; sense=1
    for ln in open(path):
        if ln.startswith('#'): continue
        parts=[p.strip() for p in ln.rstrip('\n').split('|')]
        if parts[0]=='prob':
            sense=int(parts[1].split()[0])
        elif parts[0]=='col':
            q=parts[2].split(); cols.append(dict(name=parts[3], obj=num(q[0]), lo=num(q[1]), hi=num(q[2]), ints=parts[1]))
        elif parts[0]=='row':
            i=[int(x) for x in parts[1].split()]; q=parts[2].split()
            rows.append(dict(name=parts[3], sense=chr(i[0]), idx=i[1:], rhs=num(q[0]), rng=num(q[1]), coef=[num(x) for x in q[2:]]))
    return sense, cols, rows
if __name__=='__main__':
    sense, cols, rows = load(sys.argv[1])
    print('Maximize' if sense<0 else 'Minimize')
    print(' obj: ' + ' '.join('%+d/%d %s'%(c['obj'].numerator,c['obj'].denominator,c['name']) for c in cols if c['obj']!=0) )
    print('Subject To')
    for r in rows:
        op={'L':'<=','G':'>=','E':'=','R':'>='}[r['sense']]
        print(' %s: '%r['name'] + ' '.join('%+d/%d %s'%(v.numerator,v.denominator,cols[j]['name']) for j,v in zip(r['idx'],r['coef'])) + ' %s %d/%d'%(op,r['rhs'].numerator,r['rhs'].denominator), '  \\ range %s'%r['rng'] if r['sense']=='R' else '')
    print('Bounds')
    used=set(j for r in rows for j in r['idx'])|set(j for j,c in enumerate(cols) if c['obj']!=0)
    for j,c in enumerate(cols):
        if j not in used: continue
        print(' %s <= %s <= %s'%('-inf' if c['lo']<=-INF else c['lo'], c['name'], 'inf' if c['hi']>=INF else c['hi']))
    print('End')

#!/usr/bin/env python3
"""round-2 seeded changes: table for meta.json (merged into tools/mkmeta.py's output format)"""
import json, os, re
ROOT = os.path.join(os.path.dirname(os.path.abspath(__file__)), "..", "seeded")
T = {
 "C02b": ("C02", "QSexact_solver, mpf loop, case INFEASIBLE: `if (!QSget_infeas_array(...) || QSexact_infeasible_test(...))` -- `||` where `&&` is needed, so the exact Farkas test of the re-solved basis is skipped",
          "a feasible LP whose feasibility hinges on a relative perturbation below the 128-bit mpf tolerances (2^-100 and smaller)"),
 "C03b": ("C03", "dual_phaseII_step computes the entering variable's step before ILLfct_update_dIIfeas has set upd.dty (stale value from the previous iteration)",
          "dual simplex pivot that flips at least one boxed nonbasic column (knapsack-cover LPs with boxed columns); result: UNSOLVED on small integer data"),
 "C04b": ("C04", "ILLfct_compute_dobj skips fixed/artificial nonbasic columns (same idea as the C12 change, other consequence)",
          "mpq_QSopt_dual ending in dual phase II (scaling off or non-optimal warm start) on an LP with a nonbasic fixed column of non-zero value: wrong objective value"),
 "C05b": ("C05", "ILLlib_chgcoef drops the row-major matrix copy rA only when the call created a new nonzero",
          "LP read from a file (only those carry rA), QSchange_coef overwriting an existing nonzero, then mpq_QSopt_dual with >= 4 rows"),
 "C06b": ("C06", "ILLsymboltab_delete redirects only the bucket head when the last slot is moved into the hole",
          "two live names in one hash bucket (101 buckets: x1/x52), an earlier delete that moved the newer one down, then a delete of a third name; lookup of the newer name then fails"),
 "C07b": ("C07", "ILLsymboltab_register does not recompute the hash after grow_symboltab()",
          "the 101st (201st, ...) name of a table: it is chained into the wrong bucket, so adding the same name again is accepted"),
 "C09b": ("C09", "ILLlib_addrow stores `range` for every sense; the MPS writer emits a RANGES entry for any non-zero stored range",
          "QSadd_ranged_row(s) with a non-R sense and a non-zero (documented as ignored) range value while the range array exists, then MPS write/read"),
 "C10b": ("C10", "transferColNamesLowerUpperIntMarker copies raw->lower[ci] instead of raw->lower[i]",
          "MPS file with an extra non-objective N row and a column used only there (dropped by the reader): every later column gets its predecessor's lower bound"),
 "C12b": ("C12", "QSload_basis gained a status repair loop that reads lower[i]/upper[i] with the structural instead of the matrix index",
          "problem built with a row before some column; nonbasic column at a finite UPPER bound whose index maps to a logical with infinite upper bound"),
 "C13b": ("C13", "dense_swap (dense LU kernel) swaps only columns s..dcols-1 of the two rows, leaving the stored L multipliers behind",
          "initial factorization reaching the dense kernel (> 25 rows, > 25% dense) with a row interchange at a stage s > 0"),
 "C14b": ("C14", "QSwrite_basis(p, NULL, f) first calls grab_basis(p) when the simplex structure holds a basis",
          "solve, then QSload_basis of a different basis, then QSwrite_basis with B == NULL: the loaded basis is overwritten by the stale solver basis"),
 "C15b": ("C15", "ILLbasis_factor singular repair: a column with only an upper bound is parked at STAT_ZERO",
          ">= 200 rows or >= 400 columns (crash basis), a duplicated +-1 equality row with two columns of equal cost ratio, primal simplex"),
 "C16b": ("C16", "QScopy_array_mpq_dbl integer fast path uses mpz_get_si (keeps the low 63 bits)",
          "an integer-valued entry of magnitude >= 2^63 anywhere in the rational problem"),
 "C17b": ("C17", "ILLlib_addrows refreshes the cached matrix pointers before, not after, the rows are inserted (use after realloc)",
          "row norms on the basis (dual steepest edge solve), a factorok-resetting edit, then a reallocating QSadd_row(s) (file-read or copied LP)"),
 "C18b": ("C18", "grow_namelist no longer frees the old string buffer when it compacts",
          "a name table overflowing its buffer while at least half of it holds deleted names: 9+ rounds of add 4 columns / delete them"),
 "C01b": ("C01", "ILLfct_check_dfeasible: `dz<0 && vstat != STAT_UPPER` / `dz>0 && vstat == STAT_UPPER` -- a nonbasic FREE column with positive reduced cost counts as dual feasible",
          "direct rational simplex (mpq_QSopt_primal with a warm/inherited basis, mpq_QSopt_dual warm or cold) on an LP with a free column that is nonbasic with positive reduced cost at a primal-feasible vertex"),
 "C08b": ("C08", "write_objective decides the continuation ' +' of a wrapped objective line by looking at the next column only, a zero coefficient counting as 'not negative'",
          "objective long enough to wrap (>= 256 characters, >= 4 terms), the column after the wrap point has objective 0 and the next non-zero coefficient is negative"),
 "C11b": ("C11", "transferRanges sets lp->sense[ri] = 'R' before the switch, i.e. also for N rows where ri is -1 (heap underflow by one byte, abort in free)",
          "MPS file whose OBJNAME names a row declared G/L/E that also has a RANGES entry"),
 "C19b": ("C19", "ILLlib_writebasis starts the loop that writes the UL records where the XU/XL pairing loop stopped instead of at column 0",
          "a column nonbasic at its finite upper bound ordered before a basic structural column; -b then -B round trip"),
 "C20b": ("C20", "QSlogv formats into a 512-byte stack buffer; longer messages fall through to fprintf(stderr)",
          "any logged message of 512 bytes or more (malformed file with a kilobyte line, missing file with a 480+ character path)"),
}
res = {}
rp = os.path.join(ROOT, "results.json")
if os.path.exists(rp):
    res = json.load(open(rp))
for sid, (prop, what, needs) in T.items():
    d = os.path.join(ROOT, sid)
    if not os.path.isdir(d):
        continue
    files = re.findall(r"^\+\+\+ b/(\S+)", open(os.path.join(d, "patch.diff")).read(), re.M)
    meta = dict(id=sid, breaks_property=prop, change=what, files=files, needs_to_manifest=needs,
                origin="round 2: written by a fresh sub-agent that saw only the property text, a scratch worktree, and the site of the round-1 change it had to stay away from",
                confirmed_by=["seedverify.sh: fresh worktree of /repo HEAD; clean tree: demo exits 0; with patch.diff: `make -j16 check` 20/20 PASS and demo exits non-zero"],
                demonstration="demo.c", checks_run=res.get(sid, {}))
    json.dump(meta, open(os.path.join(d, "meta.json"), "w"), indent=1)
    print("wrote", sid)

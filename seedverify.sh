#!/bin/bash
# usage: seedverify.sh <id> <src-dir-with patch.diff demo.c README.txt> [name]
# Confirms a seeded change in a fresh scratch worktree of /repo HEAD (outside /repo and /verif):
#   clean tree : demo exits 0
#   with patch : `make check` reports 20 passes AND demo exits non-zero
# On success stores the change as /verif/seeded/<name>/ and removes the scratch worktree.
set -u
id=$1; src=$2; name=${3:-$id}
wt=/tmp/sv_$name
out=/verif/seeded/$name
log=/tmp/sv_$name.log
cleanup() { git -C /repo worktree remove --force $wt 2>/dev/null; rm -rf $wt; }
cleanup
git -C /repo worktree add -q --detach $wt HEAD || exit 2
rsync -a --ignore-existing --exclude .git --exclude '*.o' --exclude '*.lo' --exclude '*.la' --exclude '.libs' \
  --exclude '*_dbl.c' --exclude '*_dbl.h' --exclude '*_mpq.c' --exclude '*_mpq.h' --exclude '*_mpf.c' --exclude '*_mpf.h' \
  --exclude 'tests/test_qs' --exclude 'esolver/esolver' --exclude '_build' /repo/ $wt/
: > $log
builddemo() {
  if [ -f $src/demo.c ]; then
    gcc -DHAVE_CONFIG_H -I$wt -I$wt/qsopt_ex $src/demo.c $wt/.libs/libqsopt_ex.a -lgmp -lz -lbz2 -lm -lpthread -o $wt/_demo >>$log 2>&1 || return 9
  fi
}
rundemo() {
  if [ -f $src/demo.c ]; then (cd $wt && timeout 600 ./_demo ${DEMO_ARGS:-}) >>$log 2>&1; return $?
  else (cd $wt && MUT_ROOT=$wt timeout 600 bash $src/demo.sh $wt) >>$log 2>&1; return $?; fi
}
echo "== clean build" >>$log
(cd $wt && make -j16 >>$log 2>&1) || { echo "FAIL: clean build"; exit 3; }
builddemo || { echo "FAIL: demo does not compile"; exit 3; }
rundemo; clean_rc=$?
echo "== clean demo rc=$clean_rc" >>$log
# the patch was taken in another worktree: strip its absolute prefix if any
(cd $wt && git apply $src/patch.diff) >>$log 2>&1 || { echo "FAIL: patch does not apply"; exit 3; }
echo "== mutant build + make check" >>$log
(cd $wt && make -j16 check >>$log 2>&1); mk_rc=$?
pass=$(grep -h "^# PASS:" $log | tail -1 | awk '{print $3}')
fail=$(grep -h "^# FAIL:" $log | tail -1 | awk '{print $3}')
builddemo || { echo "FAIL: demo does not compile against mutant"; exit 3; }
rundemo; mut_rc=$?
echo "== mutant demo rc=$mut_rc" >>$log
echo "$name: clean demo rc=$clean_rc; mutant: make check rc=$mk_rc pass=$pass fail=$fail; mutant demo rc=$mut_rc"
if [ $clean_rc -eq 0 ] && [ $mk_rc -eq 0 ] && [ "$pass" = "20" ] && [ $mut_rc -ne 0 ]; then
  mkdir -p $out
  cp $src/patch.diff $out/patch.diff
  [ -f $src/demo.c ] && cp $src/demo.c $out/demo.c
  [ -f $src/demo.sh ] && cp $src/demo.sh $out/demo.sh
  for f in $src/*.lp $src/*.mps $src/*.bas; do [ -f "$f" ] && cp "$f" $out/; done
  cp $src/README.txt $out/README.txt 2>/dev/null
  tail -40 $log | grep -v "^make" > $out/confirm.log
  echo "CONFIRMED $name"
  cleanup; exit 0
fi
echo "NOT CONFIRMED $name (see $log)"
cleanup; exit 1

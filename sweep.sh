#!/bin/bash
# seed sweep on the unchanged tree: every quick check under several VERIF_SEED values
seeds="${1:-2 3 4}"
for s in $seeds; do
  for p in C01 C02 C03 C04 C05 C06 C07 C08 C09 C10 C11 C12 C13 C14 C15 C16 C17 C18 C19 C20; do
    out=$(VERIF_SEED=$s ./check run $p --tier quick 2>&1 | grep "VIOLATION\|signature\|ok tier\|FAILED tier" | tr '\n' ' ')
    echo "seed=$s $out"
  done
done

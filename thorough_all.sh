#!/bin/bash
# usage: thorough_all.sh [scale] [props...]  -- runs the thorough tier of every property (time budgets scaled), one line per property
scale=${1:-1}; shift
props=${@:-C01 C02 C03 C04 C05 C06 C07 C08 C09 C10 C11 C12 C13 C14 C15 C16 C17 C18 C19 C20}
for p in $props; do
  VERIF_BUDGET_SCALE=$scale ./check run $p --tier thorough 2>&1 | grep "VIOLATION\|signature\|ok tier\|FAILED\|KNOWN" | cut -c1-250 | tr '\n' ' '
  echo
done

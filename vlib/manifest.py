"""Generate MANIFEST.json from the plan (python3 vlib/manifest.py)."""
import json, os, sys
sys.path.insert(0, os.path.dirname(os.path.dirname(os.path.abspath(__file__))))
from vlib.plan import PLAN

ALL = ["C%02d" % i for i in range(1, 21)]
PENDING_REASON = "check not built yet in this round (construction in progress, see DESIGN.md section 12); the technique applies"


def main():
    verif = os.path.dirname(os.path.dirname(os.path.abspath(__file__)))
    checks = []
    for pid in ALL:
        if pid not in PLAN:
            continue
        p = PLAN[pid]
        checks.append({
            "property_id": pid,
            "quick_cmd": "./check run %s --tier quick" % pid,
            "thorough_cmd": "./check run %s --tier thorough" % pid,
            "evidence_file": "evidence/%s.json" % pid,
            "replay_cmd_template": "./check replay %s {path}" % pid,
            "engine": p.get("engine", "rapidcheck-pbt"),
            "level_claimed": {
                "category": "exploration",
                "text": p.get("level_text", "generated-input search against an explicit oracle; no claim beyond the explored cases"),
                "design_ref": p.get("design_ref", "DESIGN.md section 5"),
            },
            "level_note": p.get("level_note", "trusted base: the reference model / certificate checkers in harness/ (exact rational arithmetic via GMP), rapidcheck, clang sanitizers"),
            "technique": p.get("technique", "property-based testing"),
        })
    hooks_commits = []
    man = {
        "version": 1,
        "setup_cmd": "./check setup",
        "hooks": {
            "guard": "QSOPT_EX_VERIF",
            "enable": "./check compiles every library flavour from /repo's working tree with -DQSOPT_EX_VERIF (vlib/build.py)",
            "baseline_off_cmd": "./check baseline",
            "source_commits": hooks_commits,
            "add_only": True,
        },
        "engines": [
            {"name": "rapidcheck-pbt", "path": "harness/pbt_main.cpp",
             "serves_properties": sorted(k for k in PLAN),
             "kind_free_text": "rapidcheck generates and shrinks choice tapes; harness/*.cpp decode them into structured cases (LPs, configurations, edit histories, files), each case runs in a forked child against the ASan+UBSan build of /repo"},
            {"name": "libfuzzer", "path": "harness/fz_main.cpp",
             "serves_properties": sorted(k for k in PLAN if any(r.get("kind") == "fuzz" for r in PLAN[k]["runs"])),
             "kind_free_text": "clang libFuzzer targets (-fsanitize=fuzzer,address,undefined; library rebuilt with fuzzer-no-link) for the LP / MPS / basis / gzip readers with the semantic oracle inside the target"},
            {"name": "driver", "path": "check",
             "serves_properties": sorted(k for k in PLAN),
             "kind_free_text": "python3 driver: rebuilds /repo's working tree, shards seeds over 16 cores, replays regression corpus, minimises (delta debugging on op lists) and 3x-confirms failures, writes evidence"},
        ],
        "checks": checks,
        "not_applicable": [{"property_id": pid, "reason": PENDING_REASON} for pid in ALL if pid not in PLAN],
        "notes": "known findings: known_findings.txt (fixed/known records); regression replays: corpus/regress/<runner property>/",
    }
    with open(os.path.join(verif, "MANIFEST.json"), "w") as f:
        json.dump(man, f, indent=1)
        f.write("\n")


if __name__ == "__main__":
    main()

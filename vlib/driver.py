import hashlib, json, os, shutil, subprocess, sys, tempfile, time
from concurrent.futures import ThreadPoolExecutor
from . import build
from .plan import PLAN

VERIF = build.VERIF
REPLAYS = os.path.join(VERIF, "replays")
EVIDENCE = os.path.join(VERIF, "evidence")
REGRESS = os.path.join(VERIF, "corpus", "regress")
KNOWN = os.path.join(VERIF, "known_findings.txt")
NCPU = build.NCPU

RC_TARGET = ("qsx", "pbt_main.cpp", "rc")
FZ_TARGET = ("qsx_fuzz", "fz_main.cpp", "fuzz")
# for smoke-testing a tier in less time (not used by the registered commands): scales every time budget
BUDGET_SCALE = float(os.environ.get("VERIF_BUDGET_SCALE", "1") or "1")


def log(msg):
    sys.stderr.write(msg + "\n")
    sys.stderr.flush()


def derive_seed(seed, *parts):
    h = hashlib.sha1(("%d|" % seed + "|".join(str(p) for p in parts)).encode()).digest()
    v = int.from_bytes(h[:4], "big") & 0x7FFFFFFF
    return v or 1


def load_known():
    """records of known_findings.txt as dicts(state, property, what, key, replay, commit)"""
    out = []
    if os.path.exists(KNOWN):
        for line in open(KNOWN):
            line = line.rstrip("\n")
            if not (line.startswith("known: ") or line.startswith("fixed: ")):
                continue
            state = line.split(":", 1)[0]
            rest = line.split(": ", 1)[1]
            parts = [p.strip() for p in rest.split(" ;; ")]
            head = parts[0].split(" ", 1)
            rec = dict(state=state, property=head[0].split("=", 1)[1], what=head[1] if len(head) > 1 else "")
            if state == "fixed":
                w = rec["what"].split(" ", 1)
                rec["commit"] = w[0]
                rec["what"] = w[1] if len(w) > 1 else ""
            for p in parts[1:]:
                if "=" in p:
                    k, v = p.split("=", 1)
                    rec[k] = v
            out.append(rec)
    return out


def child_env(scratch):
    env = dict(os.environ)
    env["QSX_SCRATCH"] = scratch
    env["QSX_KNOWN"] = KNOWN
    env["ASAN_OPTIONS"] = ("detect_leaks=1:abort_on_error=0:exitcode=97:allocator_may_return_null=1:"
                           "detect_stack_use_after_return=0:handle_abort=1:print_summary=1:symbolize=1:"
                           "malloc_context_size=12")
    env["UBSAN_OPTIONS"] = "print_stacktrace=1:halt_on_error=1:exitcode=96"
    env["LSAN_OPTIONS"] = "exitcode=0:print_suppressions=0"
    env["QSX_BIN_ASAN"] = os.path.join(build.BUILD, "asan", "h", "qsx")
    env["QSX_BIN_OPT"] = os.path.join(build.BUILD, "opt", "h", "qsx")
    env["QSX_BIN_VAL"] = os.path.join(build.BUILD, "val", "h", "qsx")
    env["QSX_ESOLVER_OPT"] = os.path.join(build.BUILD, "opt", "esolver")
    env["QSX_ESOLVER_ASAN"] = os.path.join(build.BUILD, "asan", "esolver")
    env["MALLOC_TOP_PAD_"] = "67108864"
    env["MALLOC_TRIM_THRESHOLD_"] = "536870912"
    env.pop("RC_PARAMS", None)
    return env


def binaries(flavour, need_fuzz=False):
    targets = [RC_TARGET]
    if need_fuzz and os.path.exists(os.path.join(build.HARNESS, "fz_main.cpp")):
        targets.append(FZ_TARGET)
    return build.build_harness(flavour, targets, log=sys.stderr)


def run_replay(exe, prop, variant, path, env, timeout=600):
    cmd = [exe, "replay", path]
    try:
        r = subprocess.run(cmd, stdout=subprocess.PIPE, stderr=subprocess.PIPE, env=env, timeout=timeout)
    except subprocess.TimeoutExpired:
        return "INCONCLUSIVE", "timeout", ""
    out = r.stdout.decode(errors="replace")
    verdict, sig = "INCONCLUSIVE", ""
    for line in out.splitlines():
        if line.startswith("REPLAY "):
            parts = line.split()
            verdict = parts[1]
            for p in parts[2:]:
                if p.startswith("sig="):
                    sig = p[4:]
    return verdict, sig, out


def fuzz_replay(exe, path, env, timeout=120):
    """re-execute one saved input through the fuzz binary (no fuzzing); returns (passed, signature, output)"""
    base = os.path.basename(path)
    target = base.split("-")[1] if base.startswith("C") else base.split("-")[0]
    if target not in ("lp", "mps", "bas", "lpgz"):
        target = "lp"
    e2 = dict(env)
    e2["QSX_FUZZ_TARGET"] = target
    e2.pop("QSX_FUZZ_STATS", None)
    e2["ASAN_OPTIONS"] = e2.get("ASAN_OPTIONS", "").replace("detect_leaks=1", "detect_leaks=0")   # leaks are C18's subject
    try:
        r = subprocess.run([exe, "-detect_leaks=0", os.path.abspath(path)], stdout=subprocess.PIPE, stderr=subprocess.PIPE, env=e2, timeout=timeout)
    except subprocess.TimeoutExpired:
        return False, "fuzz:%s:timeout" % target, ""
    err = r.stderr.decode(errors="replace")
    if r.returncode == 0:
        return True, "", err
    sig = "fuzz:%s:exit%d" % (target, r.returncode)
    for line in err.splitlines():
        if line.startswith("QSX-ORACLE-FAILURE:"):
            sig = "fuzz:%s:oracle:%s" % (target, "-".join(line.split()[1:7]))
            break
        if line.startswith("SUMMARY: AddressSanitizer:") or line.startswith("SUMMARY: UndefinedBehaviorSanitizer:"):
            parts = line.split()
            kind = parts[2]
            fn = parts[-1] if " in " in line else "?"
            if "pthread_kill" in fn:
                fn = ""
            sig = "fuzz:%s:%s%s" % (target, kind, ("@" + fn) if fn else "")
    return False, sig, err


def variant_of_file(prop, fname):
    # <ID>[-variant]-<hash>.case
    base = os.path.basename(fname)
    stem = base.rsplit(".", 1)[0]
    parts = stem.split("-")
    if len(parts) >= 3:
        return "-".join(parts[1:-1])
    return ""


def do_run(prop, tier, seed):
    t0 = time.time()
    if prop not in PLAN:
        log("no check for %s" % prop)
        return 2
    plan = PLAN[prop]
    os.makedirs(REPLAYS, exist_ok=True)
    os.makedirs(EVIDENCE, exist_ok=True)
    scratch = tempfile.mkdtemp(prefix="qsxrun.")
    env = child_env(scratch)
    known = load_known()
    violations = []     # (sig, replay path)
    known_lines = []
    flaky = []
    merged = dict(evaluations=0, distinct=set(), labels={}, samples=[], inconclusive=0, inconclusive_why={},
                  discard=0, known_hits={}, budget_hit=0, runs=[])
    exes = {}
    try:
        flavours = sorted(set(r.get("flavour", "asan") for r in plan["runs"] if r.get("kind", "rc") == "rc")) or ["asan"]
        for fl in flavours:
            exes[fl] = os.path.join(binaries(fl), "qsx")
        if plan.get("needs_esolver") or plan.get("needs_all_flavours"):
            binaries("opt"); binaries("asan")
        if plan.get("needs_all_flavours"):
            binaries("val")
            env["QSX_VALGRIND_PERMILLE"] = str(plan.get("valgrind_share", {}).get(tier, 0))
        fuzz_exe = None
        if any(r.get("kind") == "fuzz" for r in plan["runs"]):
            fuzz_exe = os.path.join(binaries("fuzz", need_fuzz=True), "qsx_fuzz")
        # ---------------- replay tier: every regression input ever confirmed
        rdir = os.path.join(REGRESS, prop)
        nreplayed = 0
        files = []
        if os.path.isdir(rdir):
            files = [os.path.join(rdir, f) for f in sorted(os.listdir(rdir)) if f.endswith(".case")]
        for k in known:   # findings of this property reproduced through another property's runner
            if k.get("property") == prop and k.get("replay"):
                pth = os.path.join(VERIF, k["replay"])
                if pth not in files and os.path.exists(pth) and pth.endswith(".case"):
                    files.append(pth)
        binfiles = []
        if os.path.isdir(rdir):
            binfiles = [os.path.join(rdir, f) for f in sorted(os.listdir(rdir)) if f.endswith(".bin")]
        for path in binfiles:
            rel = os.path.relpath(path, VERIF)
            ok, sig, out = fuzz_replay(fuzz_exe, path, env)
            nreplayed += 1
            entry = next((k for k in known if k.get("replay") == rel), None)
            if not ok:
                if entry and entry.get("state") == "known" and entry.get("key") == sig:
                    known_lines.append("KNOWN-FINDING: property=%s %s [%s]" % (prop, entry.get("what", ""), sig))
                else:
                    violations.append((sig, rel))
        if files:
            for path in files:
                f = os.path.basename(path)
                rel = os.path.relpath(path, VERIF)
                variant = variant_of_file(prop, f)
                verdict, sig, out = run_replay(exes[flavours[0]], prop, variant, path, env)
                nreplayed += 1
                entry = next((k for k in known if k.get("replay") == rel), None)
                if verdict == "FAIL":
                    if entry and entry.get("state") == "known" and entry.get("key") == sig:
                        known_lines.append("KNOWN-FINDING: property=%s %s [%s]" % (prop, entry.get("what", ""), sig))
                    else:
                        violations.append((sig, rel))
                elif entry and entry.get("state") == "known":
                    log("note: known finding %s no longer reproduces (%s)" % (rel, verdict))
        merged["replayed_regressions"] = nreplayed
        # ---------------- search tier
        jobs = []
        for ri, run in enumerate(plan["runs"]):
            cfg = run[tier] if tier in run else run["quick"]
            kind = run.get("kind", "rc")
            fl = run.get("flavour", "asan")
            if kind == "rc":
                shards = cfg.get("shards", NCPU)
                for s in range(shards):
                    sd = derive_seed(seed, prop, run.get("variant", ""), s)
                    out = os.path.join(scratch, "stats.%d.%d.json" % (ri, s))
                    cmd = [exes[fl], "run", "--prop", prop, "--variant", run.get("variant", ""), "--seed", str(sd),
                           "--cases", str(max(1, cfg["cases"] // shards)), "--size", str(cfg.get("size", 100)),
                           "--out", out, "--replays", REPLAYS, "--budget", str(max(5, int(cfg.get("budget", 120) * BUDGET_SCALE)))]
                    jobs.append((run, cmd, out, cfg))

        fuzzjobs = []
        for ri, run in enumerate(plan["runs"]):
            if run.get("kind") != "fuzz":
                continue
            cfg = run[tier] if tier in run else run["quick"]
            for j in range(cfg.get("jobs", 1)):
                fuzzjobs.append((run, cfg, j))

        def gofuzz(job):
            run, cfg, j = job
            target = run["target"]
            tag = "%s_%d" % (target, j)
            cdir = os.path.join(scratch, "corpus_" + tag)
            adir = os.path.join(scratch, "art_" + tag)
            os.makedirs(cdir)
            os.makedirs(adir)
            sd = derive_seed(seed, prop, target, j)
            empty = cfg.get("empty_corpus_jobs", 0) > j
            if not empty:
                subprocess.run([exes[flavours[0]], "emit-corpus", cdir, target, "--n", "24", "--seed", str(sd)],
                               stdout=subprocess.PIPE, stderr=subprocess.PIPE, env=env)
                # hand-written seeds for the rarer reader features (several N rows, markers, SOS, blank set names, ...)
                sdir = os.path.join(VERIF, "corpus", "seeds", "lp" if target == "lpgz" else target)
                if os.path.isdir(sdir):
                    for fn in sorted(os.listdir(sdir)):
                        shutil.copy(os.path.join(sdir, fn), os.path.join(cdir, "seed-" + fn))
            statf = os.path.join(scratch, "fzstats_%s.json" % tag)
            e2 = dict(env)
            e2["QSX_FUZZ_TARGET"] = target
            e2["QSX_FUZZ_STATS"] = statf
            e2["ASAN_OPTIONS"] = e2.get("ASAN_OPTIONS", "").replace("detect_leaks=1", "detect_leaks=0")
            dct = os.path.join(VERIF, "dict", ("mps" if target == "mps" else ("bas" if target == "bas" else "lp")) + ".dict")
            cmd = [fuzz_exe, "-seed=%d" % sd, "-max_total_time=%d" % max(5, int(cfg["time"] * BUDGET_SCALE)), "-max_len=%d" % cfg.get("max_len", 65536),
                   "-timeout=25", "-rss_limit_mb=4096", "-artifact_prefix=" + adir + "/", "-print_final_stats=1",
                   "-detect_leaks=0", "-dict=" + dct, "-len_control=50", cdir]
            try:
                r = subprocess.run(cmd, stdout=subprocess.PIPE, stderr=subprocess.PIPE, env=e2, timeout=cfg["time"] * 3 + 300)
                err = r.stderr.decode(errors="replace")
            except subprocess.TimeoutExpired:
                err = ""
            st = {}
            if os.path.exists(statf):
                try:
                    st = json.load(open(statf))
                except Exception:
                    st = {}
            execs = 0
            cov = 0
            for line in err.splitlines():
                if line.startswith("stat::number_of_executed_units:"):
                    execs = int(line.split()[-1])
                if " cov: " in line:
                    try:
                        cov = max(cov, int(line.split(" cov: ")[1].split()[0]))
                    except Exception:
                        pass
            arts = [os.path.join(adir, f) for f in sorted(os.listdir(adir))]
            return target, j, execs, cov, st, arts, empty

        def go(job):
            run, cmd, out, cfg = job
            try:
                r = subprocess.run(cmd, stdout=subprocess.PIPE, stderr=subprocess.PIPE, env=env,
                                   timeout=cfg.get("budget", 120) * 3 + 300)
                return job, r.returncode, r.stdout.decode(errors="replace"), r.stderr.decode(errors="replace")
            except subprocess.TimeoutExpired:
                return job, -9, "", "driver timeout"

        with ThreadPoolExecutor(NCPU) as ex:
            results = list(ex.map(go, jobs))
            fresults = list(ex.map(gofuzz, fuzzjobs))
        found = []
        noise = {}
        for target, j, execs, cov, st, arts, empty in fresults:
            merged["evaluations"] += execs
            merged["labels"]["fuzz:%s:executions" % target] = merged["labels"].get("fuzz:%s:executions" % target, 0) + execs
            merged["labels"]["fuzz:%s:max_edge_coverage" % target] = max(merged["labels"].get("fuzz:%s:max_edge_coverage" % target, 0), cov)
            for key in ("accepted", "rejected_after_3_lines", "skipped_big_exponent", "solved", "basis_accepted"):
                if key in st:
                    merged["labels"]["fuzz:%s:%s" % (target, key)] = merged["labels"].get("fuzz:%s:%s" % (target, key), 0) + st[key]
            if empty:
                merged["labels"]["fuzz:%s:empty_corpus_jobs" % target] = merged["labels"].get("fuzz:%s:empty_corpus_jobs" % target, 0) + 1
            # distinct non-trivial inputs are counted inside each job (accepted, or rejected after >= 3 lines)
            merged["distinct"].update(("fuzz-%s-%d" % (target, j), i) for i in range(st.get("distinct_nontrivial", 0)))
            if len(merged["samples"]) < 6:
                merged["samples"].extend(st.get("samples", [])[:1])
            for a in arts:
                base = os.path.basename(a)
                if base.startswith("crash-") or base.startswith("leak-"):
                    dst = os.path.join(REPLAYS, "%s-%s-%s.bin" % (prop, target, base.split("-", 1)[1][:16]))
                    shutil.copy(a, dst)
                    res = [fuzz_replay(fuzz_exe, dst, env) for _ in range(3)]
                    if all(not ok for ok, sg, o in res):
                        sig = res[0][1]
                        k = next((k for k in known if k.get("state") == "known" and k.get("property") == prop and k.get("key") == sig), None)
                        if k:
                            known_lines.append("KNOWN-FINDING: property=%s %s [%s]" % (prop, k.get("what", ""), sig))
                        elif not any(v[0] == sig for v in violations):
                            violations.append((sig, os.path.relpath(dst, VERIF)))
                    else:
                        flaky.append(dict(sig="fuzz", replay=dst, replays=[ok for ok, sg, o in res]))
                else:
                    kind = base.split("-")[0]
                    noise[kind] = noise.get(kind, 0) + 1
        if noise:
            merged["inconclusive_why"].update({"fuzz:" + k: v for k, v in noise.items()})
            merged["inconclusive"] += sum(noise.values())
        for job, rc, out, err in results:
            run, cmd, statf, cfg = job
            if os.path.exists(statf):
                st = json.load(open(statf))
                merged["evaluations"] += st["evaluations"]
                merged["distinct"].update((run.get("variant", ""), h) for h in st["distinct_nontrivial"])
                for k, v in st["labels"].items():
                    kk = (run.get("variant", "") + ":" if run.get("variant") else "") + k
                    merged["labels"][kk] = merged["labels"].get(kk, 0) + v
                for k, v in st["known"].items():
                    merged["known_hits"][k] = merged["known_hits"].get(k, 0) + v
                for k, v in st["inconclusive_why"].items():
                    merged["inconclusive_why"][k] = merged["inconclusive_why"].get(k, 0) + v
                merged["inconclusive"] += st["inconclusive"]
                merged["discard"] += st["discard"]
                if len(merged["samples"]) < 6:
                    merged["samples"].extend(st["samples"][:2])
                for f in st["failures"]:
                    found.append((run.get("variant", ""), run.get("flavour", "asan"), f["sig"], f["replay"]))
            elif rc not in (0, 1):
                log("shard failed rc=%s: %s\n%s" % (rc, " ".join(cmd), (out + err)[-2000:]))
                merged["runs"].append(dict(cmd=" ".join(cmd[1:]), rc=rc, tail=(out + err)[-500:]))
            for line in out.splitlines():
                if line.startswith("DONE") and "budget_hit=1" in line:
                    merged["budget_hit"] += 1
        # ---------------- confirm each failure: 3 replays in fresh processes
        seen_sigs = set()
        for variant, fl, sig, path in found:
            if (variant, sig) in seen_sigs:
                continue
            try:
                subprocess.run([exes[fl], "minimize", path, "--budget", "60"], stdout=subprocess.PIPE,
                               stderr=subprocess.PIPE, env=env, timeout=400)
            except subprocess.TimeoutExpired:
                pass
            res = [run_replay(exes[fl], prop, variant, path, env) for _ in range(3)]
            if all(v == "FAIL" for v, s, o in res):
                seen_sigs.add((variant, sig))
                rsig = res[0][1]
                k = next((k for k in known if k.get("state") == "known" and k.get("property") == prop and k.get("key") == rsig), None)
                if k:
                    known_lines.append("KNOWN-FINDING: property=%s %s [%s]" % (prop, k.get("what", ""), rsig))
                else:
                    violations.append((rsig, os.path.relpath(path, VERIF)))
            else:
                flaky.append(dict(sig=sig, replay=path, replays=[v for v, s, o in res]))
    finally:
        shutil.rmtree(scratch, ignore_errors=True)
    wall = time.time() - t0
    minimum = plan.get("min_nontrivial", {}).get(tier, 2)
    ev = {
        "property_id": prop,
        "tier": tier,
        "seed": seed,
        "level": "exploration",
        "coverage": {
            "evaluations": merged["evaluations"] + merged.get("replayed_regressions", 0),
            "distinct_nontrivial": len(merged["distinct"]),
            "rule": plan["rule"],
            "samples": merged["samples"][:6] or ["(no case executed)"],
            "classes": dict(sorted(merged["labels"].items())),
            "replayed_regressions": merged.get("replayed_regressions", 0),
            "excluded_known": merged["known_hits"],
            "inconclusive": merged["inconclusive"],
            "inconclusive_reasons": merged["inconclusive_why"],
            "discarded": merged["discard"],
            "shards_stopped_by_budget": merged["budget_hit"],
            "underpowered": len(merged["distinct"]) < minimum,
            "flaky_discarded": flaky,
            "failed_shards": merged["runs"],
            "exhaustive": False,
        },
        "assumptions": plan.get("assumptions", []),
        "wall_s": round(wall, 2),
        "violations": len(violations),
    }
    with open(os.path.join(EVIDENCE, prop + ".json"), "w") as f:
        json.dump(ev, f, indent=1, sort_keys=False)
        f.write("\n")
    for l in sorted(set(known_lines)):
        print(l)
    for sig, path in violations:
        print("VIOLATION property=%s replay=%s" % (prop, path))
        log("  signature: %s" % sig)
    print("%s %s tier=%s seed=%d evaluations=%d distinct_nontrivial=%d inconclusive=%d wall=%.0fs" % (
        prop, "FAILED" if violations else "ok", tier, seed, ev["coverage"]["evaluations"],
        ev["coverage"]["distinct_nontrivial"], merged["inconclusive"], wall))
    return 1 if violations else 0


def do_replay(prop, path):
    scratch = tempfile.mkdtemp(prefix="qsxrun.")
    try:
        env = child_env(scratch)
        exe = os.path.join(binaries("asan"), "qsx")
        if PLAN.get(prop, {}).get("needs_esolver"):
            binaries("opt")
        if path.endswith(".bin"):
            fexe = os.path.join(binaries("fuzz", need_fuzz=True), "qsx_fuzz")
            ok, sig, out = fuzz_replay(fexe, path, env)
            verdict = "PASS" if ok else "FAIL"
        else:
            variant = variant_of_file(prop, path)
            verdict, sig, out = run_replay(exe, prop, variant, os.path.abspath(path), env)
        sys.stderr.write(out[-4000:])
        if verdict == "FAIL":
            known = load_known()
            k = next((k for k in known if k.get("state") == "known" and k.get("property") == prop and k.get("key") == sig), None)
            if k:
                print("KNOWN-FINDING: property=%s %s [%s]" % (prop, k.get("what", ""), sig))
                return 0
            print("VIOLATION property=%s replay=%s" % (prop, path))
            return 1
        print("replay %s: %s" % (path, verdict))
        return 0
    finally:
        shutil.rmtree(scratch, ignore_errors=True)


def do_setup():
    for fl in ("asan", "opt"):
        binaries(fl, need_fuzz=(fl == "asan"))
    print("setup ok")
    return 0


def do_baseline():
    """repository test-suite, hook guard OFF, in a throw-away copy of /repo"""
    tmp = tempfile.mkdtemp(prefix="qsxbase.")
    try:
        dst = os.path.join(tmp, "repo")
        subprocess.run(["rsync", "-a", "--exclude", ".git", build.REPO + "/", dst + "/"], check=True)
        r = subprocess.run("make -j%d check 2>&1 | tail -40" % NCPU, shell=True, cwd=dst, stdout=subprocess.PIPE)
        out = r.stdout.decode(errors="replace")
        print(out)
        log_path = os.path.join(dst, "tests", "test_qs.log")
        npass = nfail = 0
        if os.path.exists(log_path):
            for line in open(log_path, errors="replace"):
                if line.startswith("ok "):
                    npass += 1
                elif line.startswith("not ok"):
                    nfail += 1
        print("baseline: %d passed, %d failed (guard %s is OFF in this build)" % (npass, nfail, build.GUARD))
        return 0 if (npass >= 20 and nfail == 0) else 1
    finally:
        shutil.rmtree(tmp, ignore_errors=True)


def main(argv):
    if not argv:
        print(__doc__ or "usage: check setup|run|replay|baseline|list")
        return 2
    cmd = argv[0]
    seed = int(os.environ.get("VERIF_SEED", "1") or "1")
    if cmd == "setup":
        return do_setup()
    if cmd == "list":
        for k in sorted(PLAN):
            print(k, [r.get("variant", "") for r in PLAN[k]["runs"]])
        return 0
    if cmd == "baseline":
        return do_baseline()
    if cmd == "run":
        prop = argv[1]
        tier = os.environ.get("VERIF_TIER", "quick")
        if "--tier" in argv:
            tier = argv[argv.index("--tier") + 1]
        if tier not in ("quick", "thorough"):
            tier = "quick"
        return do_run(prop, tier, seed)
    if cmd == "replay":
        return do_replay(argv[1], argv[2])
    print("unknown command", cmd)
    return 2

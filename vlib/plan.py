"""Per-property search plans: which harness runs make up the quick and thorough tiers."""

PLAN = {
    "C06": dict(
        rule=("stateful model-based histories of edit calls drawn from the model's current state (valid by construction), "
              "from random start problems built through 4 API routes; after EVERY call the whole problem is read back "
              "through two independent query routes and compared with the reference model. Non-trivial = history with a "
              "delete after an add, or one that crosses a growth threshold (100 rows / 100 cols / 1000 non-zeros); "
              "distinct = distinct case text (hash)."),
        assumptions=["reference model = documented meaning of each edit call (harness/qsx_ops.cpp)",
                     "duplicate indices inside one delete list are not generated (undocumented)"],
        min_nontrivial=dict(quick=200, thorough=2000),
        runs=[
            dict(variant="", quick=dict(cases=6000, size=100, shards=12, budget=45),
                 thorough=dict(cases=120000, size=200, shards=16, budget=600)),
            dict(variant="bulk", quick=dict(cases=400, size=100, shards=4, budget=45),
                 thorough=dict(cases=8000, size=150, shards=16, budget=600)),
        ],
    ),
}

"""Per-property search plans: which harness runs make up the quick and thorough tiers."""

def both(variant, quick, thorough, asan_shards=6, opt_shards=10):
    """the same search on the sanitizer build (memory errors, UB) and on the optimised build (6x the cases)"""
    out = []
    for fl, sh in (("asan", asan_shards), ("opt", opt_shards)):
        q = dict(quick); t = dict(thorough)
        share = sh / float(asan_shards + opt_shards)
        q["shards"] = sh; t["shards"] = sh
        # the optimised build gets through about six times as many cases in the same time
        mult = 6 if fl == "opt" else 1
        q["cases"] = max(sh, int(quick["cases"] * share * mult)); t["cases"] = max(sh, int(thorough["cases"] * share * mult))
        out.append(dict(variant=variant, flavour=fl, quick=q, thorough=t))
    return out


PLAN = {
    "C06": dict(
        rule=("stateful model-based histories of edit calls drawn from the model's current state (valid by construction), "
              "from random start problems built through 4 API routes; after EVERY call the whole problem is read back "
              "through two independent query routes and compared with the reference model. Non-trivial = history with a "
              "delete after an add, or one that crosses a growth threshold (100 rows / 100 cols / 1000 non-zeros); "
              "distinct = distinct case text (hash)."),
        assumptions=["reference model = documented meaning of each edit call (harness/qsx_ops.cpp)",
                     "duplicate indices inside one delete list are not generated (undocumented)"],
        min_nontrivial=dict(quick=200, thorough=2000),
        runs=both("", dict(cases=6000, size=100, budget=40), dict(cases=120000, size=200, budget=600), 5, 7) +
             both("bulk", dict(cases=500, size=100, budget=40), dict(cases=8000, size=150, budget=600), 2, 2),
    ),
    "C01": dict(
        rule=("LP from constructive families (optimal-by-construction with chosen degeneracy, ill-conditioned, infeasible by tiny "
              "margins, lower-dimensional faces, unbounded, cycling classics, structural corner cases) x solve configuration "
              "(entry point, algorithm, 4x4 pricing rules, scaling, mpf precision, warm start: none/optimal/arbitrary/other "
              "objective, iteration limits) x API build route; every OPTIMAL answer is checked exactly: out-parameters == "
              "accessors, slack and reduced-cost identities, primal feasibility, weak-duality bound from pi equals c.x, value. "
              "Non-trivial = OPTIMAL with m>=1, n>=2 and a non-zero dual; distinct = distinct case text."),
        technique="PBT with exact certificate oracle (weak duality bound in rational arithmetic)",
        min_nontrivial=dict(quick=500, thorough=5000),
        runs=both("", dict(cases=12000, size=100, shards=16, budget=40), dict(cases=400000, size=150, shards=16, budget=600)),
    ),
    "C02": dict(
        rule=("LPs infeasible by construction (margins 1, 2^-20, 2^-60, 2^-200; one or two rows carrying the contradiction), "
              "LPs feasible only on a lower-dimensional face, random and corner-case LPs x solver configurations; every "
              "INFEASIBLE answer of the exact solver must come with multipliers accepted by an exact Farkas checker (either "
              "orientation, never leaning on an infinite bound), and no LP with a certified feasible point may be called "
              "INFEASIBLE by any entry point. Non-trivial = INFEASIBLE with >=2 non-zero multipliers, or a face LP solved."),
        technique="PBT with exact Farkas-certificate oracle + reference solver for feasibility",
        min_nontrivial=dict(quick=300, thorough=3000),
        runs=both("", dict(cases=12000, size=100, shards=16, budget=40), dict(cases=400000, size=150, shards=16, budget=600)),
    ),
    "C03": dict(
        rule=("well-formed LPs of moderate bit size (<= 8x8 random families; truth from an independent self-certifying exact "
              "simplex: OPTIMAL needs a verified primal-dual pair, INFEASIBLE verified Farkas multipliers, UNBOUNDED a verified "
              "feasible point + improving ray); QSexact_solver with default limits must return 0, the same definitive status and "
              "the same optimal value. Cases the reference cannot certify are inconclusive, never judged. Non-trivial = certified "
              "truth with m>=1 and n>=2."),
        technique="PBT, differential against a self-certifying exact reference solver",
        min_nontrivial=dict(quick=500, thorough=5000),
        runs=both("", dict(cases=12000, size=100, shards=16, budget=45), dict(cases=400000, size=150, shards=16, budget=900)),
    ),
    "C04": dict(
        rule=("one LP x a set of 6-10 configurations always containing primal and dual exact runs, scaling on/off, both direct "
              "rational simplex entry points, warm starts (optimal basis, arbitrary type-correct basis, optimal basis of another "
              "objective) and repeated solves of the same object; all definitive (status, value) pairs must be identical and equal "
              "to the reference truth. Non-trivial = >=4 definitive answers on an LP with certified truth, m>=1, n>=2."),
        technique="PBT, metamorphic/differential over solver configurations",
        min_nontrivial=dict(quick=300, thorough=3000),
        runs=both("", dict(cases=4000, size=100, shards=16, budget=45), dict(cases=100000, size=150, shards=16, budget=900)),
    ),
    "C05": dict(
        rule=("stateful histories over {add/new rows, ranged rows, cols; delete rows/cols by index, list, flag set, name; change "
              "coef/objcoef/rhs/range/sense(s)/bound(s)/objsense; load basis (object/arrays); copy (continue on either side)} "
              "interleaved with solves by QSexact_solver, mpq_QSopt_primal, mpq_QSopt_dual under random pricing/scaling, and with "
              "probes of every solution accessor. After each solve: status and value must equal those of a freshly built copy of "
              "the current model solved by QSexact_solver, and the returned solution must pass the exact optimality certificate "
              "against the current model; each probe must fail or serve a still-optimal solution. Non-trivial = a solve that starts "
              "from retained state after >=1 edit; distinct = distinct history text."),
        technique="stateful model-based PBT, differential against solve-from-scratch + certificate oracle",
        min_nontrivial=dict(quick=500, thorough=5000),
        runs=both("", dict(cases=5000, size=100, budget=45), dict(cases=150000, size=150, budget=900)),
    ),
    "C07": dict(
        rule=("table of 67 (public function, corrupted argument) probes x boundary value {-1, count, count+1, number of internal "
              "columns, INT_MAX, INT_MIN; unknown/empty/duplicate names; illegal sense / bound selector / parameter id or value; "
              "size-mismatched or malformed basis} x position of the bad entry in a list x lifecycle state {loaded, parameters set, "
              "solved by exact/primal/dual, edited after solve} x random base LPs and build routes; each probe runs in a forked child: "
              "snapshot (full dump through the query API, basis arrays, status, every solution accessor, parameters), the call must "
              "return non-zero/NULL, the snapshot must be unchanged, ASan/UBSan must stay silent, and the object must still solve and "
              "free. Non-trivial = every probe; distinct = distinct (function, boundary, position, state) cell."),
        technique="table-driven PBT of invalid calls with state-snapshot oracle under ASan/UBSan",
        min_nontrivial=dict(quick=800, thorough=3000),
        runs=[dict(variant="", flavour="asan", quick=dict(cases=16000, size=60, shards=16, budget=40),
                   thorough=dict(cases=200000, size=100, shards=16, budget=600))],
    ),
    "C16": dict(
        rule=("(a) stateful with two objects and two reference models: the original gets all five integer and three numeric "
              "parameters set, then interleaved {copy either way, switch object, free one, edit, solve}; right after each copy the "
              "copy must equal the original in every datum, name, objective sense and every parameter; after every later op each "
              "object must still equal its OWN model whatever happened to the other (freeing one of them under ASan exposes shared "
              "memory). (b) QScopy_prob_mpq_dbl and (c) QScopy_prob_mpq_mpf at 64/128/512 bits: same counts, structure, senses, "
              "parameters; each finite number within one ulp of the double (resp. 2^-(prec-1) relative), infinities mapped to the "
              "target type's infinity, zeros to zeros. Non-trivial = both objects edited/solved after the copy (a) or a non-empty "
              "problem (b,c)."),
        technique="stateful model-based PBT with two models; entrywise conversion-error oracle for reduced-precision copies",
        min_nontrivial=dict(quick=300, thorough=3000),
        runs=both("", dict(cases=5000, size=100, budget=35), dict(cases=150000, size=150, budget=600), 6, 6) +
             [dict(variant="dbl", flavour="asan", quick=dict(cases=2000, size=100, shards=2, budget=30), thorough=dict(cases=60000, size=150, shards=8, budget=300)),
              dict(variant="mpf", flavour="asan", quick=dict(cases=2000, size=100, shards=2, budget=30), thorough=dict(cases=60000, size=150, shards=8, budget=300))],
    ),
    "C18": dict(
        rule=("each case runs in a forked child on the ASan build with GMP routed through malloc: (hist) edit/solve/copy/load-basis "
              "histories as in C05 incl. infeasible, unbounded and iteration-limited outcomes and the solve-from-scratch twin, (bad) "
              "every invalid-call probe of C07, (file) LP/MPS text from the independent emitters truncated, poisoned or cut at a token boundary "
              "chosen by the tape and read with or without an error collector (accepted files are also written and solved briefly); then every problem, basis, array is freed, QSexactClear() is called, the stack is "
              "scrubbed and __lsan_do_recoverable_leak_check() must report nothing. Signature = the two innermost library frames "
              "of the first leak. Non-trivial = history with a non-OPTIMAL solve or a failing call; distinct = distinct case text / "
              "probe cell."),
        technique="PBT with per-case LeakSanitizer oracle after full teardown",
        min_nontrivial=dict(quick=300, thorough=3000),
        runs=[dict(variant="hist", flavour="asan", quick=dict(cases=3000, size=100, shards=10, budget=40), thorough=dict(cases=100000, size=150, shards=12, budget=900)),
              dict(variant="bad", flavour="asan", quick=dict(cases=4000, size=60, shards=3, budget=40), thorough=dict(cases=60000, size=100, shards=4, budget=600)),
              dict(variant="file", flavour="asan", quick=dict(cases=6000, size=80, shards=3, budget=40), thorough=dict(cases=200000, size=120, shards=6, budget=900)),
              dict(variant="large", flavour="asan", quick=dict(cases=48, size=100, shards=4, budget=45), thorough=dict(cases=4000, size=100, shards=16, budget=900)),
              dict(variant="churn", flavour="asan", quick=dict(cases=300, size=100, shards=3, budget=40), thorough=dict(cases=20000, size=100, shards=8, budget=900))],
    ),
    "C20": dict(
        rule=("a log handler is installed, stdout and stderr of the child are replaced by two memfds, then a history runs: valid "
              "edits, solves by all three entry points at display levels 0-3, accessor probes, basis loads and exact verdict "
              "functions, copies, every invalid-call probe of C07, reads of missing / malformed files (LP, MPS, .gz, basis), writes "
              "of LP/MPS/basis files. After EVERY library call both memfds must still be empty (attribution to the call), and the "
              "handler must never receive NULL. Non-trivial = history containing a failing call; distinct = distinct history."),
        technique="stateful PBT with captured standard streams as oracle",
        min_nontrivial=dict(quick=300, thorough=3000),
        runs=[dict(variant="", flavour="asan", quick=dict(cases=5000, size=100, shards=16, budget=40), thorough=dict(cases=150000, size=150, shards=16, budget=900))],
    ),
    "C10": dict(
        rule=("an independent grammar-driven emitter (harness/qsx_io.cpp, shares no code with the library's writers) turns a known "
              "rational model into LP or MPS text, drawing every lexical and layout alternative from the tape: keyword spellings and "
              "case, named/unnamed objective and rows, literals as integers / leading zeros / decimals / leading or trailing dot / "
              "exponent forms / reduced and unreduced fractions, omitted 1, separated signs, repeated terms that add up, line breaks "
              "between tokens, blank lines, comments, all bound forms, +-inf spellings, negative-upper rule, INTEGER section; MPS: "
              "OBJSENSE/OBJNAME, two entries per line, MARKER lines, RANGES on L/G/E of either sign, set names, UP/LO/FX/FR/MI/PL/BV/"
              "LI/UI. Each literal is constructed to denote a known rational exactly. Oracle: dump(read(text)) must equal the model "
              "(columns by name, rows by name or content, row intervals, every number as a rational). Non-trivial = text using >=3 "
              "feature classes; distinct = distinct text."),
        technique="grammar-based generation with known denotation (print side of a parser) + exact comparison",
        min_nontrivial=dict(quick=2000, thorough=20000),
        runs=both("lp", dict(cases=20000, size=100, budget=30), dict(cases=600000, size=150, budget=600), 4, 4) +
             both("mps", dict(cases=20000, size=100, budget=30), dict(cases=600000, size=150, budget=600), 4, 4),
    ),
    "C08": dict(
        rule=("models satisfying the precondition (every column used, >=1 non-empty row) with all senses incl. ranges of width 0 and "
              ">0, every bound shape, integer marks (source problem read from harness MPS text), huge rationals, rows long enough to "
              "wrap, awkward names (leading digit, blanks, illegal characters, keywords, clashes with generated names), an extra empty "
              "row; built through the API or from text; written by QSwrite_prob to plain/.gz/.bz2/FILE*, read back, compared under the "
              "statement's equivalences (match by name through the writer's rename notices, ranged row = G+L halves, empty rows "
              "dropped, every number identical). Follow-ups: second generation write/read, both problems solved, LP->MPS->LP chain. "
              "Non-trivial = model with a ranged row, non-default bound, fraction or long row."),
        technique="round-trip PBT with name-matched exact comparison",
        min_nontrivial=dict(quick=1000, thorough=10000),
        runs=both("", dict(cases=12000, size=100, budget=40), dict(cases=300000, size=150, budget=900)),
    ),
    "C09": dict(
        rule=("as C08 for the MPS writer/reader (blank-free awkward names), RANGES must come back natively (same interval as an R "
              "row); follow-ups: second generation, solve, MPS->LP->MPS chain. Non-trivial as C08."),
        technique="round-trip PBT with name-matched exact comparison",
        min_nontrivial=dict(quick=1000, thorough=10000),
        runs=both("", dict(cases=12000, size=100, budget=40), dict(cases=300000, size=150, budget=900)),
    ),
    "C11": dict(
        rule=("coverage-guided libFuzzer campaigns (ASan+UBSan, library built with fuzzer instrumentation) on four in-process "
              "targets: LP text and MPS text served through the public line-reader callback (first byte chooses with/without error "
              "collector), basis files against 7 fixed problems (QSread_basis, QSread_and_load_basis), and gzip-compressed LP/MPS "
              "through QSread_prob. Seed corpus: small valid files from the independent emitters (fresh per run); dictionaries of "
              "keywords and pathological literals (1/0, 1e9999, --). Oracle inside the target: the call returns; an accepted problem "
              "must dump consistently through the whole query API, be written in LP and MPS form, have its LP output re-readable when "
              "C08's precondition holds, be solvable (<=10x10, 200 iterations) with any OPTIMAL answer passing the exact certificate, "
              "and be freed; a returned basis must have legal statuses and the right dimensions and be loadable. Inputs with an "
              "exponent of >=5 digits are skipped and counted. Non-trivial = input accepted by the reader or rejected after >=3 "
              "lines; distinct by content hash."),
        technique="coverage-guided fuzzing (libFuzzer) with in-target semantic oracle",
        engine="libfuzzer",
        min_nontrivial=dict(quick=2000, thorough=20000),
        runs=[dict(kind="fuzz", target="lp", quick=dict(jobs=6, time=30, max_len=4096), thorough=dict(jobs=6, time=900, max_len=65536, empty_corpus_jobs=1)),
              dict(kind="fuzz", target="mps", quick=dict(jobs=5, time=30, max_len=4096), thorough=dict(jobs=5, time=900, max_len=65536, empty_corpus_jobs=1)),
              dict(kind="fuzz", target="bas", quick=dict(jobs=3, time=30, max_len=2048), thorough=dict(jobs=3, time=900, max_len=65536, empty_corpus_jobs=1)),
              dict(kind="fuzz", target="lpgz", quick=dict(jobs=2, time=30, max_len=4096), thorough=dict(jobs=2, time=900, max_len=65536))],
    ),
    "C14": dict(
        rule=("LP from the constructive families (blank-free names, ranged rows, free and fixed columns) x valid basis (returned by "
              "an exact solve, or arbitrary type-correct: structurals swapped in for logicals, ranged rows at upper, free columns "
              "non-basic) x how it is written (QSwrite_basis(p,B,f), QSwrite_basis(p,NULL,f) = the problem's own basis, plain/.gz) x "
              "follow-up (write again; load the re-read basis / QSread_and_load_basis, optionally edit, solve primal/dual and compare "
              "with a twin problem that never touched a file). Oracle: QSread_basis returns the same basic set and the same at-upper "
              "set (non-basic free columns may be FREE instead of LOWER), both bases have the same exact basic solution (own "
              "rational Gauss solve), and after writing its own basis the problem still reports exactly that basis. Non-trivial = "
              "basis with a basic structural and a non-basic row."),
        technique="round-trip PBT with exact basic-solution oracle + differential twin",
        min_nontrivial=dict(quick=500, thorough=5000),
        runs=both("", dict(cases=8000, size=100, budget=35), dict(cases=200000, size=150, budget=600)),
    ),
    "C12": dict(
        rule=("(returned) LP x configuration as in C01; every basis handed back with OPTIMAL (ebasis of QSexact_solver, QSget_basis "
              "after the direct simplex) must have exactly m basic entries and, when non-singular by the harness's own exact Gauss "
              "solve, its basic solution must be primal and dual feasible, reproduce the reported x and value, be confirmed by "
              "QSexact_basis_optimalstatus, QSexact_basis_dualstatus (bound = exact dual objective up to the sign of the internal min "
              "form), QSexact_verify with and without pre-step, and a solve warm-started from it. (verdict) caller supplied bases: for "
              "LPs with n+m<=7 EVERY basic set of size m x EVERY type-correct non-basic status assignment (up to 600 per LP, rotated "
              "start), random type-correct bases for larger LPs; the verdict functions must answer 1 iff the exact basic solution has "
              "the property, and the dual bound must equal the exact dual objective. Singular bases are skipped. Non-trivial = "
              "non-singular non-slack basis on an LP with m>=2 (returned) / >=2 non-singular bases judged (verdict)."),
        technique="PBT + bounded-exhaustive basis enumeration against an exact Gauss-solve reference",
        min_nontrivial=dict(quick=500, thorough=5000),
        runs=both("returned", dict(cases=8000, size=100, budget=35), dict(cases=200000, size=150, budget=600), 4, 4) +
             both("verdict", dict(cases=2000, size=100, budget=35), dict(cases=60000, size=150, budget=600), 4, 4),
    ),
    "C19": dict(
        rule=("the esolver executable (built from /repo's working tree, optimised build without -m and ASan build with -m 2^64-1) is "
              "run as a child process on files rendered from a known model by the independent emitters or by the library's writer: "
              "LP/MPS, plain/.gz/.bz2, odd extension needing -L, options drawn from {-L, -O name[.gz|.bz2], -p k, -d k, -S, -P bits, "
              "-b f}; damaged variants (truncation, inserted operators, 1/0, stray section keywords, leading garbage) and missing "
              "files. Oracle: for text the library reader rejects (decided in-process) or a missing file: non-zero exit, no signal, no "
              "sanitizer abort; for readable text: exit 0, the (possibly compressed) solution file parses, both status lines equal the "
              "reference solver's certified truth, and for OPTIMAL the listed non-zero x / reduced costs / duals / slacks (absent = 0, "
              "names must exist, listed values must be non-zero exact fractions) pass the exact optimality certificate of C01 against "
              "the model and Value equals the optimum; a basis written with -b must make a second run with -B exit 0 with the same "
              "optimum. Non-trivial = readable file, OPTIMAL truth, >=2 option kinds."),
        technique="process-level PBT: differential against the reference solver + certificate check of the parsed solution file",
        needs_esolver=True,
        min_nontrivial=dict(quick=200, thorough=3000),
        runs=[dict(variant="", flavour="opt", quick=dict(cases=4000, size=100, shards=16, budget=40), thorough=dict(cases=120000, size=150, shards=16, budget=900))],
    ),
    "C15": dict(
        rule=("base LP with truth known by construction (optimal primal-dual witness, or infeasible by construction) and a random "
              "composition of 2-6 transformations: row permutation, column permutation, positive row scaling, negative row scaling "
              "with sense flip (ranges mirrored), variable substitution x = a x' + b (bounds, costs, rhs adjusted, objective constant "
              "tracked), objective negation with MIN<->MAX, duplicated row, added redundant row (relaxed non-negative combination), "
              "equality split into <= and >=. Both formulations are solved by QSexact_solver (random primal/dual start); statuses must "
              "agree, optimal values must satisfy the tracked affine relation, and both must agree with the construction. Variant "
              "'large': 200-400 rows x 200-600 columns sparse, so that the sparse initial-basis/crash code (>=200 rows), partial "
              "pricing thresholds and refactorisation are active. Non-trivial = both definitive and >=2 different transformation kinds."),
        technique="metamorphic PBT with construction witnesses",
        min_nontrivial=dict(quick=300, thorough=3000),
        runs=both("", dict(cases=6000, size=100, budget=35), dict(cases=150000, size=150, budget=600), 5, 5) +
             [dict(variant="large", flavour="opt", quick=dict(cases=60, size=100, shards=6, budget=40), thorough=dict(cases=3000, size=100, shards=16, budget=900))],
    ),
    "C17": dict(
        rule=("memory safety proper is watched in EVERY check of every property: all harnesses run on the ASan+UBSan build with GMP "
              "routed through malloc, and any report fails the check that meets it. This check adds reproducibility: edit / solve / "
              "copy / load-basis histories (as C05) are executed in-process and then re-executed in fresh processes under four "
              "environments - ASan build with malloc fill 0xbe, ASan build with malloc fill 0x00, optimised build (slab allocator) "
              "with MALLOC_PERTURB_=0x5a, optimised build with MALLOC_PERTURB_=0xff under setarch -R (no ASLR) - and the transcripts "
              "(return codes, statuses, exact x/pi/rc/slack, Farkas vectors, returned bases, the final problem through the query API, "
              "hashes of the written LP/MPS/basis files) must be byte-identical; a share of the histories is also run under valgrind "
              "memcheck (--error-exitcode, undefined-value errors on) on an uninstrumented build. Variants mem / mem6: the histories "
              "of C05 (adaptive tails, start objects from the file readers) and the bulk edit sequences of C06 executed on the "
              "ASan+UBSan build for their memory behaviour alone (functional verdicts only labelled). Non-trivial = history with a "
              "solve and a structural edit; distinct by transcript."),
        technique="PBT with cross-environment differential (determinism) oracle + sanitizers + valgrind sample",
        needs_all_flavours=True,
        valgrind_share=dict(quick=1, thorough=4),
        min_nontrivial=dict(quick=200, thorough=3000),
        runs=both("", dict(cases=2400, size=100, budget=40), dict(cases=60000, size=150, budget=900), 6, 10) +
             [dict(variant="mem", flavour="asan", quick=dict(cases=3000, size=100, shards=8, budget=35), thorough=dict(cases=150000, size=150, shards=16, budget=600)),
              dict(variant="mem6", flavour="asan", quick=dict(cases=600, size=100, shards=4, budget=35), thorough=dict(cases=20000, size=150, shards=8, budget=600))],
    ),
    "C13": dict(
        rule=("(api) LP solved to optimality by the direct rational simplex (random pricing), then a random sequence of "
              "QSopt_pivotin_row / QSopt_pivotin_col calls (rank-one updates of the factorization, no refactor); after the solve and "
              "after every accepted pivot-in: QSget_basis_order must list distinct basic columns, each row i of QSget_binv_row must "
              "satisfy row_i . B = e_i with B's columns taken in that order from [A | diag(sigma)], and each QSget_tableau_row must "
              "equal row_i . [A | logicals], all exactly. (lu) component level through the installed factor header: sparse rational "
              "matrices dim 1..40 of 8 structures (random sparse, triangular, dense, arrow, singletons, duplicate columns, "
              "near-singular with 2^-k perturbations) factored by ILLfactor, then up to 60 column replacements following the caller "
              "protocol of basis.c (ftran_update, ILLfactor_update, refactor on request or on blow-up/singular/no-space codes), "
              "replacement columns regular, singular-making or dense; a labelled minority runs with non-default MAX_K / ETAMAX / "
              "DENSE_MIN. After factor and after every update ftran and btran of a sparse and a dense right-hand side must satisfy "
              "the system exactly; nsing==0 iff the harness's exact elimination says regular; singular replacements must be reported. "
              "Non-trivial = >=2 accepted pivot-ins on m>=3 (api); dim>=4 with >=3 updates since the last refactor or a singular/"
              "refactor event (lu)."),
        technique="PBT with algebraic identity oracle (B^-1 B = I) against exact dense elimination",
        min_nontrivial=dict(quick=400, thorough=4000),
        runs=both("api", dict(cases=6000, size=100, budget=35), dict(cases=150000, size=150, budget=600), 4, 4) +
             both("lu", dict(cases=8000, size=100, budget=35), dict(cases=300000, size=150, budget=600), 4, 4),
    ),
}

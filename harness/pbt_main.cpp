// pbt_main.cpp -- rapidcheck front end: generates choice tapes, runs every case in a
// forked child (clean global state, crash containment, per-case leak attribution),
// collects statistics for the evidence file, writes shrunk failures as replay files.
#include <rapidcheck.h>
#include "qsx.hpp"
#include "qsx_io.hpp"
#include <fcntl.h>
#include <signal.h>
#include <sys/time.h>
#include <sys/wait.h>
#include <time.h>
#include <unistd.h>

extern "C" int __lsan_do_recoverable_leak_check(void) __attribute__((weak));
extern "C" void __lsan_disable(void) __attribute__((weak));

using namespace qsx;

namespace qsx { void register_all_properties(); std::string transcript_run(const Case &c); }

static double now_s() {
  struct timespec ts;
  clock_gettime(CLOCK_MONOTONIC, &ts);
  return ts.tv_sec + ts.tv_nsec * 1e-9;
}

struct Stats {
  long evaluations = 0, pass = 0, fail = 0, discard = 0, inconclusive = 0, known_hits = 0;
  std::set<uint64_t> distinct_nontrivial;
  std::map<std::string, long> labels, known, inconclusive_why;
  std::vector<std::string> samples, samples_nt;
} g_stats;

static std::string g_errfile;
static const Property *g_prop;
static bool g_counting = true;     // false while shrinking
static double g_shrink_deadline = 0;
static double g_t_exec = 0, g_t_child_fork = 0;

struct Outcome {
  Result r;
  std::string casetext;
};

static std::string jsesc(const std::string &s) {
  std::string o;
  for (unsigned char c : s) {
    if (c == '"') o += "\\\"";
    else if (c == '\\') o += "\\\\";
    else if (c == '\n') o += "\\n";
    else if (c == '\t') o += "\\t";
    else if (c < 32 || c >= 127) { char b[8]; snprintf(b, sizeof b, "\\u%04x", c); o += b; }
    else o += (char)c;
  }
  return o;
}

static void child_write(int fd, const std::string &s) {
  size_t off = 0;
  while (off < s.size()) {
    ssize_t w = write(fd, s.data() + off, s.size() - off);
    if (w <= 0) break;
    off += (size_t)w;
  }
}

static std::string sanitizer_sig(const std::string &err, std::string *summary) {
  // AddressSanitizer
  size_t p = err.find("ERROR: AddressSanitizer: ");
  if (p != std::string::npos) {
    size_t e = err.find_first_of(" \n", p + 25);
    std::string kind = err.substr(p + 25, e - (p + 25));
    // first frame that is not an interceptor / allocator
    std::string fn = "?";
    size_t q = p;
    while ((q = err.find("\n    #", q)) != std::string::npos) {
      size_t in = err.find(" in ", q);
      size_t eol = err.find('\n', q + 1);
      if (in == std::string::npos || in > eol) { q = eol; continue; }
      size_t fe = err.find_first_of(" \n", in + 4);
      std::string f = err.substr(in + 4, fe - (in + 4));
      q = eol;
      if (f.find("__interceptor") != std::string::npos || f.find("__asan") != std::string::npos ||
          f == "malloc" || f == "free" || f == "realloc" || f == "calloc" || f.find("__sanitizer") != std::string::npos)
        continue;
      fn = f;
      break;
    }
    if (summary) *summary = err.substr(p, std::min<size_t>(1500, err.size() - p));
    return "asan:" + kind + "@" + fn;
  }
  p = err.find("runtime error: ");
  if (p != std::string::npos) {
    size_t ls = err.rfind('\n', p);
    ls = ls == std::string::npos ? 0 : ls + 1;
    size_t eol = err.find('\n', p);
    std::string line = err.substr(ls, eol - ls);
    // file.c:123:45: runtime error: message
    std::string file = line.substr(0, line.find(':'));
    size_t sl = file.rfind('/');
    if (sl != std::string::npos) file = file.substr(sl + 1);
    std::string msg = err.substr(p + 15, eol - (p + 15));
    std::string kind;
    for (char c : msg) { if (c == ' ' && kind.size() > 24) break; kind += (c == ' ' ? '-' : c); if (kind.size() > 40) break; }
    if (summary) *summary = line;
    return "ubsan:" + kind + "@" + file;
  }
  p = err.find("ERROR: LeakSanitizer");
  if (p != std::string::npos) {
    if (summary) *summary = err.substr(p, std::min<size_t>(2500, err.size() - p));
    // two innermost library frames of the first leak
    std::string fr[2];
    int k = 0;
    size_t q = p;
    while (k < 2 && (q = err.find("\n    #", q)) != std::string::npos) {
      size_t in = err.find(" in ", q);
      size_t eol = err.find('\n', q + 1);
      if (in == std::string::npos || in > eol) { q = eol; continue; }
      size_t fe = err.find_first_of(" \n", in + 4);
      std::string f = err.substr(in + 4, fe - (in + 4));
      q = eol;
      if (f.find("__interceptor") != std::string::npos || f == "malloc" || f == "realloc" || f == "calloc" ||
          f.find("__gmp") == 0 || f.find("posix_memalign") != std::string::npos || f == "strdup")
        continue;
      fr[k++] = f;
    }
    return "leak:" + fr[0] + "<" + fr[1];
  }
  return "";
}

// run one tape (or one explicit case) in a forked child
static Outcome exec_case(const Property *prop, const std::vector<uint32_t> *tape, const Case *explicit_case) {
  Outcome out;
  int fds[2];
  if (pipe(fds) != 0) { out.r.verdict = INCONCLUSIVE; out.r.msg = "pipe failed"; return out; }
  fflush(stdout);
  fflush(stderr);
  pid_t pid = fork();
  if (pid < 0) { close(fds[0]); close(fds[1]); out.r.verdict = INCONCLUSIVE; out.r.msg = "fork failed"; return out; }
  if (pid == 0) {
    close(fds[0]);
    int efd = getenv("QSX_DEBUG") ? -1 : open(g_errfile.c_str(), O_WRONLY | O_CREAT | O_TRUNC, 0600);
    if (efd >= 0) { dup2(efd, 2); close(efd); }
    int nfd = open("/dev/null", O_WRONLY);
    if (nfd >= 0) { dup2(nfd, 1); close(nfd); }
    std::string sd = scratch_dir();
    clean_dir(sd);
    if (chdir(sd.c_str()) != 0) _exit(90);
    alarm((unsigned)prop->timeout_s);
    sut_case_reset();
    Case c;
    if (explicit_case) c = *explicit_case;
    else { Tape t(*tape); prop->gen(t, c); }
    std::string ctext = c.str();
    // ship the case first so that the parent knows it even if we crash
    child_write(fds[1], "C " + esc(ctext) + "\n");
    Result r;
    prop->run(c, r);
    if (prop->leakcheck && r.verdict == PASS && __lsan_do_recoverable_leak_check) {
      scrub_stack();
      if (__lsan_do_recoverable_leak_check()) r.fail("leak:pending", "LeakSanitizer reported a leak");
    }
    std::string o;
    o += "V " + std::to_string(r.verdict) + "\n";
    o += "N " + std::to_string((int)r.nontrivial) + "\n";
    o += "H " + std::to_string(fnv64(r.canon.empty() ? ctext : r.canon)) + "\n";
    for (auto &l : r.labels) o += "L " + esc(l) + "\n";
    if (!r.sig.empty()) o += "G " + esc(r.sig) + "\n";
    if (!r.msg.empty()) o += "M " + esc(r.msg) + "\n";
    if (!r.sample.empty()) o += "S " + esc(r.sample.substr(0, 6000)) + "\n";
    o += "E\n";
    child_write(fds[1], o);
    close(fds[1]);
    _exit(0);
  }
  close(fds[1]);
  std::string data;
  char buf[65536];
  ssize_t k;
  while ((k = read(fds[0], buf, sizeof buf)) > 0) data.append(buf, (size_t)k);
  close(fds[0]);
  int st = 0;
  waitpid(pid, &st, 0);
  bool complete = false;
  uint64_t hash = 0;
  {
    std::istringstream is(data);
    std::string line;
    while (std::getline(is, line)) {
      if (line.size() < 1) continue;
      char tag = line[0];
      std::string v = line.size() > 2 ? line.substr(2) : "";
      switch (tag) {
      case 'C': out.casetext = unesc(v); break;
      case 'V': out.r.verdict = atoi(v.c_str()); break;
      case 'N': out.r.nontrivial = atoi(v.c_str()) != 0; break;
      case 'H': hash = strtoull(v.c_str(), nullptr, 10); break;
      case 'L': out.r.labels.push_back(unesc(v)); break;
      case 'G': out.r.sig = unesc(v); break;
      case 'M': out.r.msg = unesc(v); break;
      case 'S': out.r.sample = unesc(v); break;
      case 'E': complete = true; break;
      }
    }
  }
  out.r.canon = std::to_string(hash);
  bool abnormal = !complete || !WIFEXITED(st) || WEXITSTATUS(st) != 0;
  if (abnormal) {
    std::string err = read_file(g_errfile);
    std::string summary;
    std::string sig = sanitizer_sig(err, &summary);
    if (WIFSIGNALED(st) && WTERMSIG(st) == SIGALRM) {
      out.r.verdict = INCONCLUSIVE;
      out.r.msg = "timeout";
      out.r.sig = "timeout";
    } else if (!sig.empty()) {
      out.r.verdict = FAIL;
      out.r.sig = sig;
      out.r.msg = summary;
    } else if (WIFSIGNALED(st)) {
      out.r.verdict = FAIL;
      out.r.sig = "signal:" + std::to_string(WTERMSIG(st));
      out.r.msg = "child killed by signal " + std::to_string(WTERMSIG(st)) + "\n" + err.substr(0, 1500);
    } else {
      out.r.verdict = FAIL;
      out.r.sig = "exit:" + std::to_string(WEXITSTATUS(st));
      out.r.msg = "child exited abnormally with status " + std::to_string(WEXITSTATUS(st)) + "\n" + err.substr(0, 1500);
    }
    if (out.r.verdict == FAIL && prop->crash_context) {
      Case cc;
      if (Case::parse(out.casetext, cc)) out.r.sig += ";" + prop->crash_context(cc);
    }
  } else if (out.r.verdict == FAIL && out.r.sig == "leak:pending") {
    std::string err = read_file(g_errfile), summary;
    std::string sig = sanitizer_sig(err, &summary);
    out.r.sig = sig.empty() ? "leak:unknown" : sig;
    out.r.msg = summary;
  }
  return out;
}

static void account(const Outcome &o) {
  Stats &s = g_stats;
  s.evaluations++;
  for (auto &l : o.r.labels) s.labels[l]++;
  switch (o.r.verdict) {
  case PASS: s.pass++; break;
  case FAIL: s.fail++; break;
  case DISCARD: s.discard++; break;
  default: s.inconclusive++; s.inconclusive_why[o.r.msg.substr(0, 60)]++; break;
  }
  if (o.r.nontrivial && o.r.verdict != DISCARD) {
    bool isnew = s.distinct_nontrivial.insert(strtoull(o.r.canon.c_str(), nullptr, 10)).second;
    if (isnew && s.samples_nt.size() < 4 && s.evaluations % 7 == 1)
      s.samples_nt.push_back(o.r.sample.empty() ? o.casetext.substr(0, 3000) : o.r.sample);
  } else if (s.samples.size() < 2)
    s.samples.push_back(o.r.sample.empty() ? o.casetext.substr(0, 1500) : o.r.sample);
}

struct Failure {
  std::vector<uint32_t> tape;
  Outcome o;
  bool have = false;
} g_lastfail;

static std::string write_replay(const Property *prop, const Failure &f, const std::string &dir) {
  std::string body;
  body += "QSXREPLAY 1\n";
  body += std::string("property ") + prop->id + "\n";
  body += std::string("variant ") + prop->variant + "\n";
  body += "# signature " + f.o.r.sig + "\n";
  {
    std::istringstream is(f.o.r.msg);
    std::string line;
    while (std::getline(is, line)) body += "# " + line + "\n";
  }
  body += "tape";
  for (uint32_t v : f.tape) body += " " + std::to_string(v);
  body += "\n";
  body += "case\n" + f.o.casetext + "end\n";
  std::string name = dir + "/" + prop->id + (prop->variant[0] ? std::string("-") + prop->variant : "") + "-" +
                     strprintf("%016llx", (unsigned long long)fnv64(f.o.casetext + f.o.r.sig)) + ".case";
  write_file(name, body);
  return name;
}

static std::string g_replay_prop, g_replay_variant;
static bool parse_replay(const std::string &text, std::vector<uint32_t> &tape, Case &c, bool &have_case) {
  std::istringstream is(text);
  std::string line;
  have_case = false;
  bool incase = false;
  std::string ctext;
  while (std::getline(is, line)) {
    if (incase) {
      if (line == "end") { incase = false; continue; }
      ctext += line + "\n";
      continue;
    }
    if (line.rfind("property ", 0) == 0) { g_replay_prop = line.substr(9); continue; }
    if (line.rfind("variant", 0) == 0) { g_replay_variant = line.size() > 8 ? line.substr(8) : ""; continue; }
    if (line.rfind("tape", 0) == 0) {
      std::istringstream ts(line.substr(4));
      unsigned long v;
      while (ts >> v) tape.push_back((uint32_t)v);
    } else if (line == "case") { incase = true; have_case = true; }
  }
  if (have_case && !Case::parse(ctext, c)) return false;
  return true;
}

static void write_stats(const std::string &path, const Property *prop, long seed, double wall,
                        const std::vector<std::string> &failures) {
  Stats &s = g_stats;
  std::string o = "{";
  o += strprintf("\"property\":\"%s\",\"variant\":\"%s\",\"seed\":%ld,\"wall_s\":%.2f,", prop->id, prop->variant, seed, wall);
  o += strprintf("\"evaluations\":%ld,\"pass\":%ld,\"fail\":%ld,\"discard\":%ld,\"inconclusive\":%ld,\"known_hits\":%ld,",
                 s.evaluations, s.pass, s.fail, s.discard, s.inconclusive, s.known_hits);
  o += "\"distinct_nontrivial\":[";
  {
    bool first = true;
    for (uint64_t h : s.distinct_nontrivial) { o += (first ? "\"" : ",\"") + strprintf("%llx", (unsigned long long)h) + "\""; first = false; }
  }
  o += "],\"labels\":{";
  { bool first = true; for (auto &kv : s.labels) { o += std::string(first ? "" : ",") + "\"" + jsesc(kv.first) + "\":" + std::to_string(kv.second); first = false; } }
  o += "},\"known\":{";
  { bool first = true; for (auto &kv : s.known) { o += std::string(first ? "" : ",") + "\"" + jsesc(kv.first) + "\":" + std::to_string(kv.second); first = false; } }
  o += "},\"inconclusive_why\":{";
  { bool first = true; for (auto &kv : s.inconclusive_why) { o += std::string(first ? "" : ",") + "\"" + jsesc(kv.first) + "\":" + std::to_string(kv.second); first = false; } }
  o += "},\"samples\":[";
  {
    bool first = true;
    for (auto &x : s.samples_nt) { o += std::string(first ? "" : ",") + "\"" + jsesc(x) + "\""; first = false; }
    for (auto &x : s.samples) { o += std::string(first ? "" : ",") + "\"" + jsesc(x) + "\""; first = false; }
  }
  o += "],\"failures\":[";
  { bool first = true; for (auto &x : failures) { o += std::string(first ? "" : ",") + x; first = false; } }
  o += "]}\n";
  write_file(path, o);
}

static int usage() {
  fprintf(stderr, "usage: qsx list | run --prop ID [--variant V] --seed N --cases M --size S --out FILE --replays DIR [--budget SEC]\n"
                  "       qsx replay --prop ID [--variant V] FILE\n");
  return 2;
}

int main(int argc, char **argv) {
  // first of all: QSexactStart() may install its own GMP allocator (slab pools in the optimised build);
  // no rational may be created before that
  sut_global_init();
  register_all_properties();
  if (argc < 2) return usage();
  std::string mode = argv[1];
  std::map<std::string, std::string> opt;
  std::vector<std::string> pos;
  for (int i = 2; i < argc; i++) {
    std::string a = argv[i];
    if (a.rfind("--", 0) == 0 && i + 1 < argc) { opt[a.substr(2)] = argv[i + 1]; i++; }
    else pos.push_back(a);
  }
  if (mode == "transcript-one") {
    // fresh-process re-execution of one history for the determinism oracle of C17: prints the transcript
    if (pos.empty()) return usage();
    bool ok = false;
    std::string text = read_file(pos[0], &ok);
    std::vector<uint32_t> tape;
    Case c;
    bool have_case = false;
    if (!ok || !parse_replay(text, tape, c, have_case) || !have_case) return 2;
    std::string sd = scratch_dir();
    if (chdir(sd.c_str()) != 0) return 2;
    sut_case_reset();
    std::string T = qsx::transcript_run(c);
    fwrite(T.data(), 1, T.size(), stdout);
    fflush(stdout);
    clean_dir(sd);
    rmdir(sd.c_str());
    _exit(0);
  }
  if (mode == "emit-corpus") {
    // seed corpus for the reader fuzzers: small valid files from the independent emitters (first byte =
    // the selector byte the fuzz targets consume)
    if (pos.size() < 2) return usage();
    std::string dir = pos[0], target = pos[1];
    long n = opt.count("n") ? atol(opt["n"].c_str()) : 24;
    uint64_t x = 88172645463325252ull + (uint64_t)(opt.count("seed") ? atol(opt["seed"].c_str()) : 1) * 2654435761ull;
    sut_global_init();
    for (long k = 0; k < n; k++) {
      std::vector<uint32_t> tape;
      for (int i = 0; i < 400; i++) { x ^= x << 13; x ^= x >> 7; x ^= x << 17; tape.push_back((uint32_t)(x >> 16)); }
      Tape t(tape);
      std::string text;
      if (target == "bas") {
        static const char *bas[] = {"NAME  t\n XU x c1\n XL y c2\nENDATA\n", "NAME t\n LL x\n UL y\nENDATA\n", "NAME\nENDATA\n",
                                    "NAME b\n XU x1 c1\n XU x3 c2\n UL x2\nENDATA\n", "NAME b\n XL a r1\n XL b r3\n LL c\nENDATA\n", "NAME b\n XU p lim\nENDATA\n"};
        text = std::string(1, (char)('0' + k % 7)) + bas[k % 6];
      } else {
        Model m;
        bool mps = target == "mps" || (target == "lpgz" && (k & 1));
        gen_file_model(t, m, mps, true, 4, 4, (int)(k % 3));
        EmitStats st;
        text = std::string(1, (char)('0' + (k & 1))) + (mps ? emit_mps(t, m, st) : emit_lp(t, m, st));
      }
      write_file(dir + "/seed" + std::to_string(k), text);
      // a truncated twin (no final newline): exercises the end-of-buffer paths of the scanners
      if (text.size() > 8) write_file(dir + "/trunc" + std::to_string(k), text.substr(0, 2 + (size_t)(x >> 20) % (text.size() - 2)));
    }
    return 0;
  }
  if (mode == "list") {
    for (auto p : all_properties()) printf("%s %s\n", p->id, p->variant);
    return 0;
  }
  if (mode == "replay") {
    if (pos.empty()) return usage();
    bool ok = false;
    std::string text = read_file(pos[0], &ok);
    if (!ok) { fprintf(stderr, "cannot read %s\n", pos[0].c_str()); return 2; }
    std::vector<uint32_t> tape;
    Case c;
    bool have_case = false;
    if (!parse_replay(text, tape, c, have_case)) { fprintf(stderr, "cannot parse %s\n", pos[0].c_str()); return 2; }
    const Property *prop = find_property(opt.count("prop") ? opt["prop"] : g_replay_prop,
                                         opt.count("variant") ? opt["variant"] : g_replay_variant);
    if (!prop) { fprintf(stderr, "unknown property %s/%s\n", g_replay_prop.c_str(), g_replay_variant.c_str()); return 2; }
    g_prop = prop;
    g_errfile = scratch_dir() + ".err";
    sut_global_init();
    Outcome o = exec_case(prop, &tape, have_case ? &c : nullptr);
    unlink(g_errfile.c_str());
    clean_dir(scratch_dir());
    rmdir(scratch_dir().c_str());
    const char *vn[] = {"PASS", "FAIL", "DISCARD", "INCONCLUSIVE"};
    printf("REPLAY %s sig=%s known=%d\n", vn[o.r.verdict & 3], o.r.sig.c_str(), (int)is_known(prop->id, o.r.sig));
    if (o.r.verdict == FAIL) { printf("%s\n", o.r.msg.c_str()); return 1; }
    return o.r.verdict == PASS ? 0 : 3;
  }
  if (mode == "minimize") {
    // delta debugging over the op list of an explicit case: drop chunks of ops while the
    // same failure signature persists; rewrites the file in place
    if (pos.empty()) return usage();
    bool ok = false;
    std::string text = read_file(pos[0], &ok);
    std::vector<uint32_t> tape;
    Case c;
    bool have_case = false;
    if (!ok || !parse_replay(text, tape, c, have_case) || !have_case) { fprintf(stderr, "cannot use %s\n", pos[0].c_str()); return 2; }
    const Property *prop = find_property(g_replay_prop, g_replay_variant);
    if (!prop) return 2;
    g_prop = prop;
    g_errfile = scratch_dir() + ".err";
    sut_global_init();
    double budget = opt.count("budget") ? atof(opt["budget"].c_str()) : 60;
    double t0 = now_s();
    Outcome base = exec_case(prop, nullptr, &c);
    if (base.r.verdict != FAIL) { printf("MINIMIZE not-failing\n"); return 0; }
    std::string sig = base.r.sig;
    auto fixed = [](const Op &o) { return o.k == "prob" || o.k == "col" || o.k == "row" || o.k == "route" || o.k == "cfg0"; };
    size_t chunk = c.ops.size() / 2;
    int tries = 0;
    while (chunk >= 1 && now_s() - t0 < budget) {
      bool progress = false;
      for (size_t start = 0; start < c.ops.size() && now_s() - t0 < budget;) {
        Case cand;
        size_t removed = 0;
        for (size_t k = 0; k < c.ops.size(); k++) {
          if (k >= start && k < start + chunk && !fixed(c.ops[k])) { removed++; continue; }
          cand.ops.push_back(c.ops[k]);
        }
        if (!removed) { start += chunk; continue; }
        tries++;
        Outcome o = exec_case(prop, nullptr, &cand);
        if (o.r.verdict == FAIL && o.r.sig == sig) { c = cand; base = o; progress = true; }
        else start += chunk;
      }
      if (!progress || chunk == 1) { if (chunk == 1 && !progress) break; }
      chunk = chunk > 1 ? chunk / 2 : (progress ? 1 : 0);
    }
    Failure f;
    f.tape.clear();
    f.o = base;
    f.o.casetext = c.str();
    f.have = true;
    std::string body;
    body += "QSXREPLAY 1\n";
    body += std::string("property ") + prop->id + "\nvariant " + prop->variant + "\n";
    body += "# signature " + base.r.sig + "\n";
    { std::istringstream is(base.r.msg); std::string line; while (std::getline(is, line)) body += "# " + line + "\n"; }
    body += "case\n" + c.str() + "end\n";
    write_file(pos[0], body);
    unlink(g_errfile.c_str());
    clean_dir(scratch_dir());
    rmdir(scratch_dir().c_str());
    printf("MINIMIZE ops=%zu tries=%d sig=%s\n", c.ops.size(), tries, sig.c_str());
    return 0;
  }
  const Property *prop = find_property(opt["prop"], opt["variant"]);
  if (!prop) { fprintf(stderr, "unknown property %s/%s\n", opt["prop"].c_str(), opt["variant"].c_str()); return 2; }
  g_prop = prop;
  g_errfile = scratch_dir() + ".err";
  sut_global_init();
  if (mode != "run") return usage();

  long seed = atol(opt.count("seed") ? opt["seed"].c_str() : "1");
  long cases = atol(opt.count("cases") ? opt["cases"].c_str() : "100");
  long size = atol(opt.count("size") ? opt["size"].c_str() : "100");
  double budget = opt.count("budget") ? atof(opt["budget"].c_str()) : 1e9;
  std::string replays = opt.count("replays") ? opt["replays"] : ".";
  std::string rcp = strprintf("seed=%ld max_success=%ld max_size=%ld max_discard_ratio=50", seed ? seed : 1, cases, size);
  setenv("RC_PARAMS", rcp.c_str(), 1);
  double t0 = now_s();
  bool budget_hit = false;
  int scale = prop->tape_scale;
  std::vector<std::string> failures;

  auto body = [&](const std::vector<uint32_t> &tape) {
    if (g_counting && now_s() - t0 > budget) { budget_hit = true; return; }   // budget exhausted: stop judging
    if (!g_counting && now_s() > g_shrink_deadline) return;                  // shrink time exhausted
    double te0 = now_s();
    Outcome o = exec_case(prop, &tape, nullptr);
    g_t_exec += now_s() - te0;
    if (g_counting) account(o);
    if (o.r.verdict == DISCARD) RC_DISCARD("discarded");
    if (o.r.verdict == FAIL) {
      if (is_known(prop->id, o.r.sig)) {
        if (g_counting) { g_stats.known_hits++; g_stats.known[o.r.sig]++; }
        return;   // a listed finding: keep searching behind it
      }
      if (prop->keep_going) {
        static std::set<std::string> seen;
        if (seen.insert(o.r.sig).second && seen.size() <= 200) {
          Failure f;
          f.tape = tape; f.o = o; f.have = true;
          std::string path = write_replay(prop, f, replays);
          printf("FAILURE property=%s variant=%s sig=%s replay=%s\n", prop->id, prop->variant, o.r.sig.c_str(), path.c_str());
          failures.push_back("{\"sig\":\"" + jsesc(o.r.sig) + "\",\"replay\":\"" + jsesc(path) + "\",\"msg\":\"" +
                             jsesc(o.r.msg.substr(0, 2000)) + "\"}");
        }
        return;
      }
      if (g_counting) { g_counting = false; g_shrink_deadline = now_s() + 90; }
      g_lastfail.tape = tape;
      g_lastfail.o = o;
      g_lastfail.have = true;
      RC_FAIL(o.r.sig);
    }
  };
  // The scale factor is meant for the LENGTH of the tape only.  gen::scale also scales the size seen by the
  // element generator, and arbitrary<uint32_t> degenerates when that size leaves 0..100 (most elements came out as
  // the same all-ones value): the elements are generated at a fixed size of 100, i.e. uniformly over 32 bits.
  auto gen = rc::gen::scale((double)scale, rc::gen::container<std::vector<uint32_t>>(rc::gen::resize(100, rc::gen::arbitrary<uint32_t>())));
  // rapidcheck prints its own report on stderr; ours goes to stdout
  bool ok = rc::check(std::string("property ") + prop->id + "/" + prop->variant,
                      [&]() { body(*gen); });
  if (!ok && g_lastfail.have) {
    std::string path = write_replay(prop, g_lastfail, replays);
    printf("FAILURE property=%s variant=%s sig=%s replay=%s\n", prop->id, prop->variant, g_lastfail.o.r.sig.c_str(), path.c_str());
    failures.push_back("{\"sig\":\"" + jsesc(g_lastfail.o.r.sig) + "\",\"replay\":\"" + jsesc(path) + "\",\"msg\":\"" +
                       jsesc(g_lastfail.o.r.msg.substr(0, 2000)) + "\"}");
  }
  double wall = now_s() - t0;
  if (opt.count("out")) write_stats(opt["out"], prop, seed, wall, failures);
  printf("DONE property=%s variant=%s evaluations=%ld nontrivial=%zu fail=%ld known=%ld inconclusive=%ld discard=%ld budget_hit=%d wall=%.1f exec=%.1f\n",
         prop->id, prop->variant, g_stats.evaluations, g_stats.distinct_nontrivial.size(), g_stats.fail, g_stats.known_hits,
         g_stats.inconclusive, g_stats.discard, (int)budget_hit, wall, g_t_exec);
  fflush(stdout);
  unlink(g_errfile.c_str());
  clean_dir(scratch_dir());
  rmdir(scratch_dir().c_str());
  _exit(failures.empty() ? 0 : 1);
}

// qsx_core.cpp -- model, generic ops, serialisation, registry
#include "qsx.hpp"
#include <cstdarg>
#include <fstream>
#include <sys/stat.h>
#include <unistd.h>
#include <dirent.h>

namespace qsx {

// the library's own in-band infinities (set from the double 1e150 in lpdata.c, i.e. NOT 10^150)
static Q lib_inf(int sign) {
  QSexactStart();
  return Q(sign > 0 ? mpq_ILL_MAXDOUBLE : mpq_ILL_MINDOUBLE);
}
const Q &PINF() { static Q v = lib_inf(1); return v; }
const Q &NINF() { static Q v = lib_inf(-1); return v; }

std::string qstr(const Q &q) {
  if (q == PINF()) return "inf";
  if (q == NINF()) return "-inf";
  return q.get_str();
}
Q qparse(const std::string &s) {
  if (s == "inf") return PINF();
  if (s == "-inf") return NINF();
  Q v;
  if (v.set_str(s, 10) != 0) return Q(0);
  v.canonicalize();
  return v;
}
Q qpow2(int k) {
  Q v(1);
  if (k >= 0) mpz_mul_2exp(v.get_num_mpz_t(), v.get_num_mpz_t(), k);
  else mpz_mul_2exp(v.get_den_mpz_t(), v.get_den_mpz_t(), -k);
  return v;
}

std::string strprintf(const char *fmt, ...) {
  char buf[4096];
  va_list ap;
  va_start(ap, fmt);
  vsnprintf(buf, sizeof buf, fmt, ap);
  va_end(ap);
  return buf;
}
uint64_t fnv64(const std::string &s) {
  uint64_t h = 1469598103934665603ull;
  for (unsigned char c : s) { h ^= c; h *= 1099511628211ull; }
  return h;
}

// ---------------------------------------------------------------- model
int Model::nnz() const {
  int k = 0;
  for (auto &r : rows) k += (int)r.a.size();
  return k;
}
int Model::colindex(const std::string &nm) const {
  for (int j = 0; j < n(); j++) if (cols[j].name == nm) return j;
  return -1;
}
int Model::rowindex(const std::string &nm) const {
  for (int i = 0; i < m(); i++) if (rows[i].name == nm) return i;
  return -1;
}
std::string Model::text() const {
  Case c;
  c.add_model(*this);
  return c.str();
}
std::string Model::canon() const { return text(); }

bool model_equal(const Model &a, const Model &b, std::string *why, bool names) {
  auto W = [&](const std::string &s) { if (why) *why = s; return false; };
  if (a.objsense != b.objsense) return W(strprintf("objsense %d vs %d", a.objsense, b.objsense));
  if (a.n() != b.n()) return W(strprintf("ncols %d vs %d", a.n(), b.n()));
  if (a.m() != b.m()) return W(strprintf("nrows %d vs %d", a.m(), b.m()));
  for (int j = 0; j < a.n(); j++) {
    const Col &x = a.cols[j], &y = b.cols[j];
    if (names && x.name != y.name) return W(strprintf("col %d name '%s' vs '%s'", j, x.name.c_str(), y.name.c_str()));
    if (x.obj != y.obj) return W(strprintf("col %d obj %s vs %s", j, qstr(x.obj).c_str(), qstr(y.obj).c_str()));
    if (x.lo != y.lo) return W(strprintf("col %d lower %s vs %s", j, qstr(x.lo).c_str(), qstr(y.lo).c_str()));
    if (x.up != y.up) return W(strprintf("col %d upper %s vs %s", j, qstr(x.up).c_str(), qstr(y.up).c_str()));
    if (x.isint != y.isint) return W(strprintf("col %d int %d vs %d", j, (int)x.isint, (int)y.isint));
  }
  for (int i = 0; i < a.m(); i++) {
    const Row &x = a.rows[i], &y = b.rows[i];
    if (names && x.name != y.name) return W(strprintf("row %d name '%s' vs '%s'", i, x.name.c_str(), y.name.c_str()));
    if (x.sense != y.sense) return W(strprintf("row %d sense %c vs %c", i, x.sense, y.sense));
    if (x.rhs != y.rhs) return W(strprintf("row %d rhs %s vs %s", i, qstr(x.rhs).c_str(), qstr(y.rhs).c_str()));
    if (x.sense == 'R' && x.range != y.range)
      return W(strprintf("row %d range %s vs %s", i, qstr(x.range).c_str(), qstr(y.range).c_str()));
    if (x.a != y.a) {
      for (auto &kv : x.a) {
        auto it = y.a.find(kv.first);
        if (it == y.a.end()) return W(strprintf("row %d col %d coef %s vs absent", i, kv.first, qstr(kv.second).c_str()));
        if (it->second != kv.second)
          return W(strprintf("row %d col %d coef %s vs %s", i, kv.first, qstr(kv.second).c_str(), qstr(it->second).c_str()));
      }
      for (auto &kv : y.a)
        if (!x.a.count(kv.first)) return W(strprintf("row %d col %d coef absent vs %s", i, kv.first, qstr(kv.second).c_str()));
    }
  }
  return true;
}

// ---------------------------------------------------------------- ops
std::string esc(const std::string &raw) {
  std::string o;
  if (raw.empty()) return "%e";
  for (unsigned char c : raw) {
    if (c <= 32 || c >= 127 || c == '%' || c == '|') {
      char b[8];
      snprintf(b, sizeof b, "%%%02X", c);
      o += b;
    } else o += (char)c;
  }
  return o;
}
std::string unesc(const std::string &e) {
  if (e == "%e") return "";
  std::string o;
  for (size_t k = 0; k < e.size(); k++) {
    if (e[k] == '%' && k + 2 < e.size()) {
      unsigned v = 0;
      sscanf(e.substr(k + 1, 2).c_str(), "%02X", &v);
      o += (char)v;
      k += 2;
    } else o += e[k];
  }
  return o;
}
std::string Op::str() const {
  std::string o = k;
  o += " |";
  for (long v : i) o += " " + std::to_string(v);
  o += " |";
  for (auto &v : q) o += " " + qstr(v);
  o += " |";
  for (auto &v : s) o += " " + esc(v);
  return o;
}
bool op_parse(const std::string &line, Op &out) {
  out = Op();
  std::istringstream is(line);
  std::string tok;
  if (!(is >> tok)) return false;
  out.k = tok;
  int sec = 0;
  while (is >> tok) {
    if (tok == "|") { sec++; continue; }
    if (sec == 1) out.i.push_back(atol(tok.c_str()));
    else if (sec == 2) out.q.push_back(qparse(tok));
    else if (sec == 3) out.s.push_back(unesc(tok));
    else return false;
  }
  return true;
}
std::string Case::str() const {
  std::string o;
  for (auto &op : ops) { o += op.str(); o += "\n"; }
  return o;
}
bool Case::parse(const std::string &text, Case &out) {
  out.ops.clear();
  std::istringstream is(text);
  std::string line;
  while (std::getline(is, line)) {
    if (line.empty() || line[0] == '#') continue;
    Op op;
    if (!op_parse(line, op)) return false;
    out.ops.push_back(op);
  }
  return true;
}
void Case::add_model(const Model &m) {
  ops.push_back(Op("prob").I(m.objsense).I(m.n()).I(m.m()).S(m.name));
  for (auto &c : m.cols) ops.push_back(Op("col").I(c.isint).N(c.obj).N(c.lo).N(c.up).S(c.name));
  for (auto &r : m.rows) {
    Op o("row");
    o.I(r.sense).N(r.rhs).N(r.range).S(r.name);
    for (auto &kv : r.a) { o.I(kv.first); o.N(kv.second); }
    ops.push_back(o);
  }
}
bool model_from_ops(const std::vector<Op> &ops, size_t &pos, Model &out) {
  out = Model();
  if (pos >= ops.size() || ops[pos].k != "prob") return false;
  const Op &p = ops[pos++];
  if (p.i.size() < 3 || p.s.size() < 1) return false;
  out.objsense = (int)p.i[0];
  int n = (int)p.i[1], m = (int)p.i[2];
  out.name = p.s[0];
  for (int j = 0; j < n; j++) {
    if (pos >= ops.size() || ops[pos].k != "col") return false;
    const Op &o = ops[pos++];
    if (o.i.size() < 1 || o.q.size() < 3 || o.s.size() < 1) return false;
    Col c;
    c.isint = o.i[0] != 0; c.obj = o.q[0]; c.lo = o.q[1]; c.up = o.q[2]; c.name = o.s[0];
    out.cols.push_back(c);
  }
  for (int i = 0; i < m; i++) {
    if (pos >= ops.size() || ops[pos].k != "row") return false;
    const Op &o = ops[pos++];
    if (o.i.size() < 1 || o.q.size() < 2 || o.s.size() < 1) return false;
    Row r;
    r.sense = (char)o.i[0]; r.rhs = o.q[0]; r.range = o.q[1]; r.name = o.s[0];
    for (size_t k = 1; k < o.i.size() && k + 1 < o.q.size(); k++)
      if (o.q[k + 1] != 0) r.a[(int)o.i[k]] = o.q[k + 1];
    out.rows.push_back(r);
  }
  return true;
}

// ---------------------------------------------------------------- registry
static std::vector<Property> &reg() { static std::vector<Property> r; return r; }
void register_property(const Property &p) { reg().push_back(p); }
const Property *find_property(const std::string &id, const std::string &variant) {
  for (auto &p : reg()) if (id == p.id && variant == p.variant) return &p;
  return nullptr;
}
std::vector<const Property *> all_properties() {
  std::vector<const Property *> v;
  for (auto &p : reg()) v.push_back(&p);
  return v;
}

// ---------------------------------------------------------------- known findings
// text records:  known: property=<id> <what> ;; key=<signature> ;; replay=<path>
const std::vector<KnownFinding> &known_findings() {
  static std::vector<KnownFinding> v;
  static bool loaded = false;
  if (!loaded) {
    loaded = true;
    const char *p = getenv("QSX_KNOWN");
    if (p) {
      std::ifstream f(p);
      std::string line;
      while (std::getline(f, line)) {
        KnownFinding k;
        if (line.rfind("known: ", 0) == 0) k.state = "known";
        else if (line.rfind("fixed: ", 0) == 0) k.state = "fixed";
        else continue;
        size_t pp = line.find("property=");
        if (pp == std::string::npos) continue;
        size_t pe = line.find(' ', pp);
        k.prop = line.substr(pp + 9, pe - (pp + 9));
        size_t kp = line.find(";; key=");
        if (kp == std::string::npos) continue;
        size_t ke = line.find(" ;;", kp + 7);
        k.key = line.substr(kp + 7, ke == std::string::npos ? std::string::npos : ke - (kp + 7));
        k.what = line.substr(pe + 1, kp - (pe + 1));
        v.push_back(k);
      }
    }
  }
  return v;
}
bool is_known(const std::string &prop, const std::string &sig) {
  for (auto &k : known_findings())
    if (k.state == "known" && k.prop == prop && k.key == sig) return true;
  return false;
}

// ---------------------------------------------------------------- misc
std::string read_file(const std::string &path, bool *ok) {
  std::ifstream f(path, std::ios::binary);
  if (ok) *ok = (bool)f;
  std::ostringstream ss;
  ss << f.rdbuf();
  return ss.str();
}
bool write_file(const std::string &path, const std::string &data) {
  FILE *f = fopen(path.c_str(), "wb");
  if (!f) return false;
  size_t w = fwrite(data.data(), 1, data.size(), f);
  fclose(f);
  return w == data.size();
}
std::string scratch_dir() {
  // created once by the parent; forked children inherit the path and chdir into it
  static std::string dir;
  if (dir.empty()) {
    const char *base = getenv("QSX_SCRATCH");
    std::string b = base ? base : "/tmp";
    dir = b + "/qsx." + std::to_string((long)getpid());
    mkdir(dir.c_str(), 0700);
  }
  return dir;
}
void clean_dir(const std::string &d) {
  DIR *dp = opendir(d.c_str());
  if (!dp) return;
  struct dirent *e;
  while ((e = readdir(dp)) != nullptr) {
    if (!strcmp(e->d_name, ".") || !strcmp(e->d_name, "..")) continue;
    std::string p = d + "/" + e->d_name;
    unlink(p.c_str());
  }
  closedir(dp);
}
__attribute__((noinline)) void scrub_stack() {
  volatile char buf[2 * 1024 * 1024];
  for (size_t k = 0; k < sizeof buf; k += 64) buf[k] = 0;
  memset((void *)buf, 0, sizeof buf);
}

// "Moderate bit-size" (C03's scope): every finite datum has magnitude within [1e-30, 1e30] and at most
// 512 bits of numerator+denominator.  Beyond that, intermediate quantities (coefficient x bound,
// multiplier x rhs) can pass the library's in-band infinity 1e150 and the floating-point stages may
// legitimately be unable to classify the LP, which the exact driver reports as a non-definitive status.
static bool moderate_num(const Q &v, bool may_be_infinite = false) {
  if (v == 0 || (may_be_infinite && !is_fin(v))) return true;     // only column bounds and ranges have an in-band infinity
  static const Q hi("1000000000000000000000000000000"), lo = Q(1) / hi;   // 1e30
  Q a = abs(v);
  if (a > hi || a < lo) return false;
  return mpz_sizeinbase(v.get_num_mpz_t(), 2) + mpz_sizeinbase(v.get_den_mpz_t(), 2) <= 512;
}
bool model_is_moderate(const Model &m) {
  for (auto &c : m.cols) if (!moderate_num(c.obj) || !moderate_num(c.lo, true) || !moderate_num(c.up, true)) return false;
  for (auto &r : m.rows) {
    if (!moderate_num(r.rhs) || !moderate_num(r.range, true)) return false;
    for (auto &kv : r.a) if (!moderate_num(kv.second)) return false;
  }
  return true;
}

}  // namespace qsx

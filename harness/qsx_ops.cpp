// qsx_ops.cpp -- edit commands: documented meaning applied to the model, the same
// command applied to the library, and a generator that draws valid commands from the
// *model's* current state (so every generated edit is valid by construction).
#include "qsx.hpp"
#include "qsx_ops.hpp"

extern "C" {
void qsx_mpq_free(mpq_t *a);
}

namespace qsx {

static const char *nm(const std::string &s) { return s.empty() ? nullptr : s.c_str(); }
static const mpq_t *cq(const Q &q) { return (const mpq_t *)q.get_mpq_t(); }

// ------------------------------------------------------------------ model side
static void model_delrows(Model &m, std::set<int> del) {
  std::vector<Row> keep;
  for (int i = 0; i < m.m(); i++) if (!del.count(i)) keep.push_back(m.rows[i]);
  m.rows.swap(keep);
}
static void model_delcols(Model &m, std::set<int> del) {
  std::vector<int> newidx(m.n(), -1);
  std::vector<Col> keep;
  for (int j = 0; j < m.n(); j++) if (!del.count(j)) { newidx[j] = (int)keep.size(); keep.push_back(m.cols[j]); }
  m.cols.swap(keep);
  for (auto &r : m.rows) {
    std::map<int, Q> a;
    for (auto &kv : r.a) if (newidx[kv.first] >= 0) a[newidx[kv.first]] = kv.second;
    r.a.swap(a);
  }
}

// structural validity of an op against a model (indices in range, arity right); ops that
// come out of the generator are always valid, ops of a hand-edited or minimised case may not be
bool op_valid(const Model &m, const Op &o) {
  const std::string &k = o.k;
  auto rowok = [&](long i) { return i >= 0 && i < m.m(); };
  auto colok = [&](long j) { return j >= 0 && j < m.n(); };
  if (k == "newrow") return o.i.size() >= 1 && o.q.size() >= 1 && o.s.size() >= 1;
  if (k == "newcol") return o.q.size() >= 3 && o.s.size() >= 1;
  if (k == "addrows" || k == "addcols") {
    bool rows = k == "addrows";
    if (o.i.size() < 2) return false;
    long num = o.i[1];
    if (num < 1 || (long)o.s.size() < num) return false;
    size_t ip = 2, qp = 0;
    for (long r0 = 0; r0 < num; r0++) {
      if (rows) { if (ip >= o.i.size()) return false; ip++; }
      if (ip >= o.i.size()) return false;
      long cnt = o.i[ip++];
      qp += rows ? 2 : 3;
      if (cnt < 0 || ip + cnt > o.i.size() || qp + cnt > o.q.size()) return false;
      std::set<long> seen;
      for (long t = 0; t < cnt; t++) {
        long x = o.i[ip++];
        if (!(rows ? colok(x) : rowok(x)) || !seen.insert(x).second) return false;
      }
      qp += cnt;
    }
    return true;
  }
  if (k == "delrows" || k == "delcols") {
    if (o.i.size() < 2) return false;
    std::set<long> seen;
    for (size_t t = 1; t < o.i.size(); t++)
      if (!(k == "delrows" ? rowok(o.i[t]) : colok(o.i[t])) || !seen.insert(o.i[t]).second) return false;
    if ((o.i[0] == 1 || o.i[0] == 3) && o.i.size() != 2) return false;
    return o.i[0] >= 0 && o.i[0] <= 4;
  }
  if (k == "chgcoef") return o.i.size() >= 2 && o.q.size() >= 1 && rowok(o.i[0]) && colok(o.i[1]);
  if (k == "chgobj") return o.i.size() >= 1 && o.q.size() >= 1 && colok(o.i[0]);
  if (k == "chgrhs") return o.i.size() >= 1 && o.q.size() >= 1 && rowok(o.i[0]);
  if (k == "chgrange") return o.i.size() >= 1 && o.q.size() >= 1 && rowok(o.i[0]) && m.rows[o.i[0]].sense == 'R' && o.q[0] >= 0;
  if (k == "chgsense") {
    if (o.i.size() < 3 || (o.i.size() % 2) != 1) return false;
    if (o.i[0] == 0 && o.i.size() != 3) return false;
    for (size_t t = 1; t + 1 < o.i.size(); t += 2)
      if (!rowok(o.i[t]) || !strchr("LGER", (int)o.i[t + 1]) || o.i[t + 1] == 0) return false;
    return true;
  }
  if (k == "chgbound") {
    if (o.i.size() < 3 || (o.i.size() % 2) != 1 || o.q.size() < (o.i.size() - 1) / 2) return false;
    if (o.i[0] == 0 && o.i.size() != 3) return false;
    for (size_t t = 1, qn = 0; t + 1 < o.i.size(); t += 2, qn++) {
      if (!colok(o.i[t])) return false;
      const Col &c = m.cols[o.i[t]];
      char lu = (char)o.i[t + 1];
      if (lu != 'L' && lu != 'U' && lu != 'B') return false;
      if (lu == 'L' && o.q[qn] > c.up) return false;       // keep lower <= upper
      if (lu == 'U' && o.q[qn] < c.lo) return false;
    }
    return true;
  }
  if (k == "objsense") return o.i.size() >= 1 && (o.i[0] == 1 || o.i[0] == -1);
  return false;
}

bool model_apply(Model &m, const Op &o, std::vector<std::pair<int, int>> *unnamed) {
  if (!op_valid(m, o)) return false;
  // unnamed: (0=row|1=col, index) entries whose name the library must invent
  const std::string &k = o.k;
  if (k == "newrow") {
    Row r; r.sense = (char)o.i[0]; r.rhs = o.q[0]; r.range = 0; r.name = o.s[0];
    if (r.name.empty() && unnamed) unnamed->push_back({0, m.m()});
    m.rows.push_back(r);
    return true;
  }
  if (k == "addrows") {
    // i: variant, nrows, then per row: sense cnt idx*cnt ; q: per row rhs range val*cnt ; s: names
    size_t ip = 2, qp = 0;
    int nr = (int)o.i[1];
    bool ranged = o.i[0] >= 2;
    for (int r0 = 0; r0 < nr; r0++) {
      Row r;
      r.sense = (char)o.i[ip++];
      int cnt = (int)o.i[ip++];
      r.rhs = o.q[qp++];
      r.range = o.q[qp++];
      if (!ranged || r.sense != 'R') r.range = 0;
      for (int t = 0; t < cnt; t++) {
        int j = (int)o.i[ip++];
        Q v = o.q[qp++];
        if (v != 0) r.a[j] = v;
      }
      r.name = o.s[r0];
      if (r.name.empty() && unnamed) unnamed->push_back({0, m.m()});
      m.rows.push_back(r);
    }
    return true;
  }
  if (k == "newcol") {
    Col c; c.obj = o.q[0]; c.lo = o.q[1]; c.up = o.q[2]; c.name = o.s[0];
    if (c.name.empty() && unnamed) unnamed->push_back({1, m.n()});
    m.cols.push_back(c);
    return true;
  }
  if (k == "addcols") {
    // i: variant, ncols, per col: cnt idx*cnt ; q: per col obj lo up val*cnt ; s: names
    size_t ip = 2, qp = 0;
    int nc = (int)o.i[1];
    for (int c0 = 0; c0 < nc; c0++) {
      Col c;
      int cnt = (int)o.i[ip++];
      c.obj = o.q[qp++]; c.lo = o.q[qp++]; c.up = o.q[qp++];
      int j = m.n();
      for (int t = 0; t < cnt; t++) {
        int i = (int)o.i[ip++];
        Q v = o.q[qp++];
        if (v != 0) m.rows[i].a[j] = v;
      }
      c.name = o.s[c0];
      if (c.name.empty() && unnamed) unnamed->push_back({1, j});
      m.cols.push_back(c);
    }
    return true;
  }
  if (k == "delrows") {
    std::set<int> d;
    for (size_t t = 1; t < o.i.size(); t++) d.insert((int)o.i[t]);
    model_delrows(m, d);
    return true;
  }
  if (k == "delcols") {
    std::set<int> d;
    for (size_t t = 1; t < o.i.size(); t++) d.insert((int)o.i[t]);
    model_delcols(m, d);
    return true;
  }
  if (k == "chgcoef") {
    int i = (int)o.i[0], j = (int)o.i[1];
    if (o.q[0] == 0) m.rows[i].a.erase(j); else m.rows[i].a[j] = o.q[0];
    return true;
  }
  if (k == "chgobj") { m.cols[o.i[0]].obj = o.q[0]; return true; }
  if (k == "chgrhs") { m.rows[o.i[0]].rhs = o.q[0]; return true; }
  if (k == "chgrange") { m.rows[o.i[0]].range = o.q[0]; return true; }
  if (k == "chgsense") {
    for (size_t t = 1; t + 1 < o.i.size(); t += 2) {
      Row &r = m.rows[o.i[t]];
      char ns = (char)o.i[t + 1];
      // documented (lib.c, ILLlib_chgsense): a row turned into 'R' has range 0, "i.e. an
      // equation", until QSchange_range is called; other senses have no range at all
      r.range = 0;
      r.sense = ns;
    }
    return true;
  }
  if (k == "chgbound") {
    for (size_t t = 1, qn = 0; t + 1 < o.i.size(); t += 2, qn++) {
      Col &c = m.cols[o.i[t]];
      char lu = (char)o.i[t + 1];
      if (lu == 'L' || lu == 'B') c.lo = o.q[qn];
      if (lu == 'U' || lu == 'B') c.up = o.q[qn];
    }
    return true;
  }
  if (k == "objsense") { m.objsense = (int)o.i[0]; return true; }
  return false;
}

// ------------------------------------------------------------------ SUT side
int sut_apply(mpq_QSprob p, const Op &o, const Model &before) {
  const std::string &k = o.k;
  if (k == "newrow") return mpq_QSnew_row(p, o.q[0].get_mpq_t(), (int)o.i[0], nm(o.s[0]));
  if (k == "addrows") {
    int variant = (int)o.i[0], nr = (int)o.i[1];
    size_t ip = 2, qp = 0;
    std::vector<int> cnt, beg, ind;
    std::vector<Q> val, rhs, rng;
    std::vector<char> sense;
    std::vector<const char *> names;
    for (int r0 = 0; r0 < nr; r0++) {
      sense.push_back((char)o.i[ip++]);
      int c = (int)o.i[ip++];
      cnt.push_back(c);
      beg.push_back((int)ind.size());
      rhs.push_back(o.q[qp++]);
      rng.push_back(o.q[qp++]);
      for (int t = 0; t < c; t++) { ind.push_back((int)o.i[ip++]); val.push_back(o.q[qp++]); }
      names.push_back(nm(o.s[r0]));
    }
    sense.push_back(0);
    QArr v((int)val.size()), r(nr), g(nr);
    for (size_t t = 0; t < val.size(); t++) v.set((int)t, val[t]);
    // the range entry of a non-ranged row is ignored by the ranged-row calls: pass something non-zero there
    for (int t = 0; t < nr; t++) { r.set(t, rhs[t]); g.set(t, sense[t] == 'R' ? rng[t] : Q(5 + t, 2)); }
    switch (variant) {
    case 0: return mpq_QSadd_row(p, cnt[0], ind.data(), v.v, r.v, sense[0], names[0]);
    case 1: return mpq_QSadd_rows(p, nr, cnt.data(), beg.data(), ind.data(), v.v, r.v, sense.data(), names.data());
    case 2: return mpq_QSadd_ranged_row(p, cnt[0], ind.data(), v.v, r.v, sense[0], g.v, names[0]);
    default: return mpq_QSadd_ranged_rows(p, nr, cnt.data(), beg.data(), ind.data(), v.v, r.v, sense.data(), g.v, names.data());
    }
  }
  if (k == "newcol") return mpq_QSnew_col(p, o.q[0].get_mpq_t(), o.q[1].get_mpq_t(), o.q[2].get_mpq_t(), nm(o.s[0]));
  if (k == "addcols") {
    int variant = (int)o.i[0], nc = (int)o.i[1];
    size_t ip = 2, qp = 0;
    std::vector<int> cnt, beg, ind;
    std::vector<Q> val, obj, lo, up;
    std::vector<const char *> names;
    for (int c0 = 0; c0 < nc; c0++) {
      int c = (int)o.i[ip++];
      cnt.push_back(c);
      beg.push_back((int)ind.size());
      obj.push_back(o.q[qp++]); lo.push_back(o.q[qp++]); up.push_back(o.q[qp++]);
      for (int t = 0; t < c; t++) { ind.push_back((int)o.i[ip++]); val.push_back(o.q[qp++]); }
      names.push_back(nm(o.s[c0]));
    }
    QArr v((int)val.size()), ob(nc), l(nc), u(nc);
    for (size_t t = 0; t < val.size(); t++) v.set((int)t, val[t]);
    for (int t = 0; t < nc; t++) { ob.set(t, obj[t]); l.set(t, lo[t]); u.set(t, up[t]); }
    if (variant == 0) return mpq_QSadd_col(p, cnt[0], ind.data(), v.v, ob.v[0], l.v[0], u.v[0], names[0]);
    return mpq_QSadd_cols(p, nc, cnt.data(), beg.data(), ind.data(), v.v, ob.v, l.v, u.v, names.data());
  }
  if (k == "delrows" || k == "delcols") {
    bool rows = k == "delrows";
    int variant = (int)o.i[0];
    std::vector<int> idx;
    for (size_t t = 1; t < o.i.size(); t++) idx.push_back((int)o.i[t]);
    int total = rows ? before.m() : before.n();
    std::vector<std::string> names;
    for (int x : idx) names.push_back(rows ? before.rows[x].name : before.cols[x].name);
    std::vector<const char *> cn;
    for (auto &s : names) cn.push_back(s.c_str());
    switch (variant) {
    case 0: return rows ? mpq_QSdelete_rows(p, (int)idx.size(), idx.data()) : mpq_QSdelete_cols(p, (int)idx.size(), idx.data());
    case 1: return rows ? mpq_QSdelete_row(p, idx[0]) : mpq_QSdelete_col(p, idx[0]);
    case 2: {
      std::vector<int> flags(total + 1, 0);
      for (int x : idx) flags[x] = 1;
      return rows ? mpq_QSdelete_setrows(p, flags.data()) : mpq_QSdelete_setcols(p, flags.data());
    }
    case 3: return rows ? mpq_QSdelete_named_row(p, cn[0]) : mpq_QSdelete_named_column(p, cn[0]);
    default: return rows ? mpq_QSdelete_named_rows_list(p, (int)cn.size(), cn.data()) : mpq_QSdelete_named_columns_list(p, (int)cn.size(), cn.data());
    }
  }
  if (k == "chgcoef") { Q v = o.q[0]; return mpq_QSchange_coef(p, (int)o.i[0], (int)o.i[1], v.get_mpq_t()); }
  if (k == "chgobj") { Q v = o.q[0]; return mpq_QSchange_objcoef(p, (int)o.i[0], v.get_mpq_t()); }
  if (k == "chgrhs") { Q v = o.q[0]; return mpq_QSchange_rhscoef(p, (int)o.i[0], v.get_mpq_t()); }
  if (k == "chgrange") { Q v = o.q[0]; return mpq_QSchange_range(p, (int)o.i[0], v.get_mpq_t()); }
  if (k == "chgsense") {
    if (o.i[0] == 0) return mpq_QSchange_sense(p, (int)o.i[1], (int)o.i[2]);
    std::vector<int> rl;
    std::vector<char> sn;
    for (size_t t = 1; t + 1 < o.i.size(); t += 2) { rl.push_back((int)o.i[t]); sn.push_back((char)o.i[t + 1]); }
    sn.push_back(0);
    return mpq_QSchange_senses(p, (int)rl.size(), rl.data(), sn.data());
  }
  if (k == "chgbound") {
    if (o.i[0] == 0) return mpq_QSchange_bound(p, (int)o.i[1], (int)o.i[2], o.q[0].get_mpq_t());
    std::vector<int> cl;
    std::vector<char> lu;
    for (size_t t = 1; t + 1 < o.i.size(); t += 2) { cl.push_back((int)o.i[t]); lu.push_back((char)o.i[t + 1]); }
    lu.push_back(0);
    QArr b((int)o.q.size());
    for (size_t t = 0; t < o.q.size(); t++) b.set((int)t, o.q[t]);
    return mpq_QSchange_bounds(p, (int)cl.size(), cl.data(), lu.data(), b.v);
  }
  if (k == "objsense") return mpq_QSchange_objsense(p, (int)o.i[0]);
  return -12345;
}

// after a successful add with NULL names: read the invented names, check them, adopt them
bool adopt_names(mpq_QSprob p, Model &m, const std::vector<std::pair<int, int>> &unnamed, std::string *why) {
  if (unnamed.empty()) return true;
  int n = mpq_QSget_colcount(p), mm = mpq_QSget_rowcount(p);
  if (n != m.n() || mm != m.m()) { if (why) *why = "counts differ after add"; return false; }
  std::vector<char *> cn(n + 1, nullptr), rn(mm + 1, nullptr);
  bool ok = true;
  if (n && mpq_QSget_colnames(p, cn.data())) ok = false;
  if (mm && mpq_QSget_rownames(p, rn.data())) ok = false;
  if (ok)
    for (auto &u : unnamed) {
      const char *s = u.first == 0 ? rn[u.second] : cn[u.second];
      if (!s || !*s) { ok = false; if (why) *why = "library invented an empty name"; break; }
      if (u.first == 0) m.rows[u.second].name = s; else m.cols[u.second].name = s;
    }
  else if (why) *why = "QSget_*names failed";
  for (int j = 0; j < n; j++) mpq_QSfree(cn[j]);
  for (int i = 0; i < mm; i++) mpq_QSfree(rn[i]);
  if (ok) {
    std::set<std::string> sc, sr;
    for (auto &c : m.cols) if (!sc.insert(c.name).second) { ok = false; if (why) *why = "duplicate column name '" + c.name + "' after invented name"; }
    for (auto &r : m.rows) if (!sr.insert(r.name).second) { ok = false; if (why) *why = "duplicate row name '" + r.name + "' after invented name"; }
  }
  return ok;
}

// ------------------------------------------------------------------ generator
static std::string fresh_name(Tape &t, const Model &m, bool row, EditGen &g) {
  int style = (int)t.below(8);
  // within one bulk call NULL names and names of the library's own shape are not mixed:
  // the library would (rightly) reject the explicit one as a duplicate of the invented one
  if (style == 0 && g.call_has_libshape) style = 3;
  if (style == 1 && g.call_has_null) style = 3;
  if (style == 0 && g.allow_null_names) { g.call_has_null = true; return ""; }   // library invents
  if (style == 1 && g.allow_null_names) g.call_has_libshape = true;
  for (int attempt = 0; attempt < 50; attempt++) {
    std::string s;
    int id = g.name_counter++;
    if (style == 1 && g.allow_null_names) {
      // a name of the shape the library itself invents (x<k> / c<k>) -- collision prone on purpose
      s = std::string(row ? "c" : "x") + std::to_string(1 + (int)t.below((uint32_t)(row ? m.m() + 3 : m.n() + 3)));
    } else if (style == 2) s = std::string(row ? "R" : "V") + "_" + std::to_string(id) + "_long_name_with_some_length";
    else s = std::string(row ? "r" : "v") + std::to_string(id);
    bool clash = row ? m.rowindex(s) >= 0 : m.colindex(s) >= 0;
    // row and column name spaces are separate in the API; keep names globally unique anyway
    // when asked (file formats need it)
    if (!clash && g.globally_unique) clash = row ? m.colindex(s) >= 0 : m.rowindex(s) >= 0;
    if (!clash) return s;
    style = 3;
  }
  return std::string(row ? "r" : "v") + "_" + std::to_string(g.name_counter++) + "_u";
}

static void gen_bounds(Tape &t, int big, Q &lo, Q &up) {
  switch (t.below(8)) {
  case 0: lo = 0; up = PINF(); break;
  case 1: lo = NINF(); up = PINF(); break;
  case 2: lo = gen_num(t, big); up = PINF(); break;
  case 3: lo = NINF(); up = gen_num(t, big); break;
  case 4: lo = gen_num(t, big); up = lo; break;
  case 5: lo = 0; up = abs(gen_num(t, big)); break;
  default: {
    Q a = gen_num(t, big), b = gen_num(t, big);
    lo = a < b ? a : b; up = a < b ? b : a;
  }
  }
}

static std::vector<int> pick_subset(Tape &t, int total, int maxk, int mink = 1) {
  std::vector<int> all, out;
  for (int i = 0; i < total; i++) all.push_back(i);
  maxk = std::min(maxk, total);
  mink = std::max(1, std::min(mink, maxk));
  int k = mink + (int)t.below((uint32_t)(maxk - mink + 1));
  for (int c = 0; c < k && !all.empty(); c++) {
    int pos = (int)t.below((uint32_t)all.size());
    out.push_back(all[pos]);
    all.erase(all.begin() + pos);
  }
  return out;
}

static char gen_sense(Tape &t, bool allow_range) {
  static const char s[] = {'L', 'G', 'E', 'R'};
  return s[t.below(allow_range ? 4 : 3)];
}

bool gen_edit(Tape &t, const Model &m, EditGen &g, Op &o, int force_kind) {
  int big = g.bigness;
  for (int attempt = 0; attempt < 6; attempt++) {
    int kind = force_kind >= 0 ? force_kind : (int)t.below(16);
    if (kind == 15 && force_kind < 0 && !t.chance(1, 3)) continue;   // objsense flips are cheap to reach
    o = Op();
    g.call_has_null = g.call_has_libshape = false;
    switch (kind) {
    case 0: {   // newrow
      if (m.m() >= g.maxm) break;
      o = Op("newrow");
      o.I(gen_sense(t, false)).N(gen_num(t, big)).S(fresh_name(t, m, true, g));
      return true;
    }
    case 1: case 2: {   // addrows family
      if (m.m() >= g.maxm) break;
      int variant = g.force_bulk ? 1 + 2 * (int)t.below(2) : (int)t.below(4);
      int nr = (variant == 1 || variant == 3) ? g.bulk_min + (int)t.below((uint32_t)(g.bulk - g.bulk_min + 1)) : 1;
      if (m.m() + nr > g.maxm) nr = std::max(1, g.maxm - m.m());
      o = Op("addrows");
      o.I(variant).I(nr);
      Model tmp = m;   // for unique name generation inside one call
      for (int r0 = 0; r0 < nr; r0++) {
        char s = gen_sense(t, variant >= 2 && g.allow_range);
        o.I(s);
        std::vector<int> cols;
        if (m.n() > 0 && !t.chance(1, 10)) cols = pick_subset(t, m.n(), std::min(m.n(), g.maxrowlen), g.minrowlen);
        o.I((long)cols.size());
        o.N(gen_num(t, big));
        Q rg = s == 'R' ? abs(gen_num(t, big)) : Q(0);
        o.N(rg);
        for (int j : cols) { o.I(j); o.N(g.allow_zero_coef && t.chance(1, 12) ? Q(0) : gen_nz(t, big)); }
        std::string name = fresh_name(t, tmp, true, g);
        o.S(name);
        Row rr; rr.name = name.empty() ? "\x01" + std::to_string(r0) : name;
        tmp.rows.push_back(rr);
      }
      return true;
    }
    case 3: {   // newcol
      if (m.n() >= g.maxn) break;
      Q lo, up;
      gen_bounds(t, big, lo, up);
      o = Op("newcol");
      o.N(gen_num(t, big)).N(lo).N(up).S(fresh_name(t, m, false, g));
      return true;
    }
    case 4: case 5: {   // addcols family
      if (m.n() >= g.maxn) break;
      int variant = g.force_bulk ? 1 : (int)t.below(2);
      int nc = variant == 1 ? g.bulk_min + (int)t.below((uint32_t)(g.bulk - g.bulk_min + 1)) : 1;
      if (m.n() + nc > g.maxn) nc = std::max(1, g.maxn - m.n());
      o = Op("addcols");
      o.I(variant).I(nc);
      Model tmp = m;
      for (int c0 = 0; c0 < nc; c0++) {
        std::vector<int> rows;
        if (m.m() > 0 && !t.chance(1, 10)) rows = pick_subset(t, m.m(), std::min(m.m(), g.maxrowlen));
        o.I((long)rows.size());
        Q lo, up;
        gen_bounds(t, big, lo, up);
        o.N(gen_num(t, big)).N(lo).N(up);
        for (int i : rows) { o.I(i); o.N(g.allow_zero_coef && t.chance(1, 12) ? Q(0) : gen_nz(t, big)); }
        std::string name = fresh_name(t, tmp, false, g);
        o.S(name);
        Col cc; cc.name = name.empty() ? "\x01" + std::to_string(c0) : name;
        tmp.cols.push_back(cc);
      }
      return true;
    }
    case 6: {   // delrows
      if (m.m() == 0) break;
      int variant = (int)t.below(5);
      o = Op("delrows");
      o.I(variant);
      std::vector<int> idx = (variant == 1 || variant == 3) ? std::vector<int>{(int)t.below((uint32_t)m.m())}
                                                            : pick_subset(t, m.m(), std::min(m.m(), g.maxdel));
      for (int x : idx) o.I(x);
      return true;
    }
    case 7: {   // delcols
      if (m.n() <= g.minn) break;
      int variant = (int)t.below(5);
      o = Op("delcols");
      o.I(variant);
      std::vector<int> idx = (variant == 1 || variant == 3) ? std::vector<int>{(int)t.below((uint32_t)m.n())}
                                                            : pick_subset(t, m.n(), std::min(m.n() - g.minn, g.maxdel));
      if ((int)idx.size() > m.n() - g.minn) idx.resize(std::max(1, m.n() - g.minn));
      for (int x : idx) o.I(x);
      return true;
    }
    case 8: case 9: {   // chgcoef
      if (m.m() == 0 || m.n() == 0) break;
      int i = (int)t.below((uint32_t)m.m()), j = (int)t.below((uint32_t)m.n());
      // prefer touching an existing entry half of the time
      if (t.coin() && !m.rows[i].a.empty()) {
        auto it = m.rows[i].a.begin();
        std::advance(it, t.below((uint32_t)m.rows[i].a.size()));
        j = it->first;
      }
      o = Op("chgcoef");
      o.I(i).I(j).N(g.allow_zero_coef && t.chance(1, 5) ? Q(0) : gen_nz(t, big));
      return true;
    }
    case 10: {
      if (m.n() == 0) break;
      o = Op("chgobj");
      int j = (int)t.below((uint32_t)m.n());
      Q v = gen_num(t, big);
      // borrowed values: a value the object already stores somewhere -- zero, the column's own coefficient (an edit
      // that changes nothing), another column's coefficient, the entry with the same index in another array --
      // is where "nothing changed, keep the solution" shortcuts go wrong
      if (t.chance(1, 3)) {
        switch (t.below(4)) {
        case 0: v = 0; break;
        case 1: v = m.cols[j].obj; break;
        case 2: v = m.cols[t.below((uint32_t)m.n())].obj; break;
        default: v = j < m.m() ? m.rows[j].rhs : Q(0); break;
        }
      }
      o.I(j).N(v);
      return true;
    }
    case 11: {
      if (m.m() == 0) break;
      o = Op("chgrhs");
      int i = (int)t.below((uint32_t)m.m());
      Q v = gen_num(t, big);
      if (t.chance(1, 3)) {   // borrowed values, as for chgobj
        switch (t.below(4)) {
        case 0: v = 0; break;
        case 1: v = m.rows[i].rhs; break;
        case 2: v = m.rows[t.below((uint32_t)m.m())].rhs; break;
        default: v = i < m.n() ? m.cols[i].obj : Q(0); break;
        }
      }
      o.I(i).N(v);
      return true;
    }
    case 12: {   // chgrange on an R row
      if (!g.allow_range) break;
      std::vector<int> rr;
      for (int i = 0; i < m.m(); i++) if (m.rows[i].sense == 'R') rr.push_back(i);
      if (rr.empty()) break;
      o = Op("chgrange");
      o.I(rr[t.below((uint32_t)rr.size())]).N(abs(gen_num(t, big)));
      return true;
    }
    case 13: {   // chgsense
      if (m.m() == 0) break;
      int variant = (int)t.below(2);
      o = Op("chgsense");
      o.I(variant);
      std::vector<int> rows = variant == 0 ? std::vector<int>{(int)t.below((uint32_t)m.m())} : pick_subset(t, m.m(), std::min(m.m(), 4));
      for (int i : rows) { o.I(i); o.I(gen_sense(t, g.allow_range && g.allow_chgsense_R)); }
      return true;
    }
    case 14: {   // chgbound(s)
      if (m.n() == 0) break;
      int variant = (int)t.below(2);
      o = Op("chgbound");
      o.I(variant);
      std::vector<int> cols = variant == 0 ? std::vector<int>{(int)t.below((uint32_t)m.n())} : pick_subset(t, m.n(), std::min(m.n(), 4));
      for (int j : cols) {
        const Col &c = m.cols[j];
        int w = (int)t.below(3);
        char lu = "LUB"[w];
        Q v = gen_num(t, big);
        if (t.chance(1, 6)) v = lu == 'L' ? NINF() : (lu == 'U' ? PINF() : v);
        // keep lower <= upper (precondition of the solver properties)
        if (lu == 'L' && v > c.up) v = c.up;
        if (lu == 'U' && v < c.lo) v = c.lo;
        if (lu == 'B' && !is_fin(v)) v = 0;
        o.I(j).I(lu).N(v);
      }
      // a list must not contradict itself: keep one entry per column
      if (variant == 1) {
        std::set<long> seen;
        Op o2("chgbound");
        o2.I(1);
        for (size_t q = 1, qn = 0; q + 1 < o.i.size(); q += 2, qn++)
          if (seen.insert(o.i[q]).second) { o2.I(o.i[q]).I(o.i[q + 1]).N(o.q[qn]); }
        o = o2;
      }
      return true;
    }
    case 15: {
      o = Op("objsense");
      o.I(t.coin() ? -1 : 1);
      return true;
    }
    }
  }
  return false;
}

}  // namespace qsx

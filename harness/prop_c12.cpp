// C12 -- basis verdicts and returned bases are exact
#include "qsx.hpp"

namespace qsx {

QSbasis *make_basis(const std::string &cstat, const std::string &rstat);
void gen_basis(Tape &t, const Model &m, std::string &cstat, std::string &rstat);

// ---------------------------------------------------------------- (a) bases handed back with OPTIMAL
static void c12_gen_returned(Tape &t, Case &c) {
  GenOpts go;
  go.maxm = 1 + (int)t.below(8); go.maxn = 1 + (int)t.below(8); go.bigness = 2;
  GenLP g;
  static const int fam[] = {F_OPT, F_OPT, F_ILL, F_FACE, F_SHAPE, F_RAND, F_CYC, F_OPT, F_ILL};
  gen_lp_family(t, go, fam[t.below(9)], g);
  c.add_model(g.m);
  c.ops.push_back(Op("route").I(t.below(R_NROUTES)));
  SolveCfg cfg = gen_cfg(t, true);
  cfg.want_basis = true;
  c.ops.push_back(cfg.op());
}

static void check_verdicts(mpq_QSprob p, const Model &m, const std::string &cs, const std::string &rs, const BasisEval &e, bool expect_optimal_known,
                           Result &r, const std::string &ctx) {
  // exact verdict functions against the reference evaluation of the same basis
  QSbasis *B = make_basis(cs, rs);
  char res = 9;
  Q dv;
  int rc = QSexact_basis_optimalstatus(p, B, &res, 0);
  QSexact_set_precision(128);
  bool refopt = e.pfeas && e.dfeas;
  if (rc) r.fail("verdict-error:optimalstatus:" + ctx, strprintf("QSexact_basis_optimalstatus returned %d for cstat=%s rstat=%s", rc, cs.c_str(), rs.c_str()));
  else if ((res == 1) != refopt)
    r.fail(std::string("verdict-wrong:optimalstatus:") + (refopt ? "missed-optimal" : "false-optimal") + ":" + ctx,
           strprintf("QSexact_basis_optimalstatus says %d, the exact basic solution is primal %s / dual %s feasible; cstat=%s rstat=%s", (int)res,
                     e.pfeas ? "" : "in", e.dfeas ? "" : "in", cs.c_str(), rs.c_str()));
  if (r.verdict == PASS) {
    res = 9;
    rc = QSexact_basis_dualstatus(p, B, &res, qp(dv), 0);
    QSexact_set_precision(128);
    if (rc) r.fail("verdict-error:dualstatus:" + ctx, strprintf("QSexact_basis_dualstatus returned %d for cstat=%s rstat=%s", rc, cs.c_str(), rs.c_str()));
    else if ((res == 1) != e.dfeas)
      r.fail(std::string("verdict-wrong:dualstatus:") + (e.dfeas ? "missed-dual-feasible" : "false-dual-feasible") + ":" + ctx,
             strprintf("QSexact_basis_dualstatus says %d, the exact duals are %sfeasible; cstat=%s rstat=%s", (int)res, e.dfeas ? "" : "in", cs.c_str(), rs.c_str()));
    else if (res == 1 && dv != e.dobj && dv != -e.dobj)
      r.fail("verdict-wrong:dual-bound:" + ctx, "QSexact_basis_dualstatus reports dual bound " + qstr(dv) + ", the exact dual objective of this basis is " + qstr(e.dobj) +
                                                    " (internal minimisation form); cstat=" + cs + " rstat=" + rs);
  }
  (void)expect_optimal_known;
  (void)m;
  mpq_QSfree_basis(B);
}

static void c12_run_returned(const Case &c, Result &r) {
  size_t pos = 0;
  Model m;
  if (!model_from_ops(c.ops, pos, m)) { r.verdict = DISCARD; return; }
  int route = 0;
  if (pos < c.ops.size() && c.ops[pos].k == "route") route = (int)c.ops[pos++].i[0];
  if (pos >= c.ops.size() || c.ops[pos].k != "cfg") { r.verdict = DISCARD; return; }
  SolveCfg cfg = SolveCfg::from_op(c.ops[pos]);
  if (cfg.entry != 0) cfg.itlim = 2000;
  std::string why;
  mpq_QSprob p = sut_build(m, route, &why);
  if (!p) { r.fail("build:" + why, why); return; }
  QSbasis *B = (QSbasis *)calloc(1, sizeof(QSbasis));
  Solution s;
  std::vector<Q> xf, y;
  sut_solve(p, cfg, cfg.entry == 0 ? B : nullptr, s, &xf, &y);
  QSexact_set_precision(128);
  std::string tag = cfg.entry == 0 ? "exact" : (cfg.entry == 1 ? "primal" : "dual");
  r.label("entry:" + tag);
  std::string cs, rs;
  bool have = false;
  if (s.rval == 0 && s.status == QS_LP_OPTIMAL) {
    if (cfg.entry == 0) { if (B->nstruct == m.n() && B->nrows == m.m() && (m.n() == 0 || B->cstat) && (m.m() == 0 || B->rstat)) { cs.assign(B->cstat ? B->cstat : "", B->nstruct); rs.assign(B->rstat ? B->rstat : "", B->nrows); have = true; } }
    else {
      cs.assign(m.n(), '?'); rs.assign(m.m(), '?');
      if (mpq_QSget_basis_array(p, &cs[0], &rs[0]) == 0) have = true;
    }
    if (!have) r.fail("optimal-without-basis:" + tag, "OPTIMAL reported but no basis of the right size was handed back");
  }
  mpq_QSfree_basis(B);
  if (have && r.verdict == PASS) {
    Solution acc;
    if (!sut_fetch_solution(p, acc, &why)) { r.fail("accessor", why); }
    int nb = 0;
    for (char ch : cs) nb += ch == '1';
    for (char ch : rs) nb += ch == '1';
    if (r.verdict == PASS && nb != m.m()) r.fail("returned-basis:basic-count:" + tag, strprintf("returned basis has %d basic entries for %d rows: cstat=%s rstat=%s", nb, m.m(), cs.c_str(), rs.c_str()));
    BasisEval e;
    if (r.verdict == PASS) basis_eval(m, cs, rs, e);
    if (r.verdict == PASS && !e.singular) {
      r.label("returned:nonsingular");
      // its exact basic solution must be the reported optimal solution
      bool samex = true;
      for (int j = 0; j < m.n(); j++) if (e.x[j] != acc.x[j]) samex = false;
      Q val = e.pobj * Q(m.objsense >= 0 ? 1 : -1);
      if (!e.pfeas || !e.dfeas) {
        // sub-class: the reported (x, pi) pass the exact optimality certificate (the answer is right) and the basis
        // is primal feasible, but a reduced cost of the basis has the wrong sign by less than 1e-9 -- the double
        // stage called the basis optimal within its tolerance and the exact test accepted the rounded solution
        std::string kind = std::string(e.pfeas ? "" : "primal") + (e.dfeas ? "" : "dual");
        if (e.pfeas && !e.dfeas) {
          Q worst = 0, tol("1/1000000000");
          for (int k = 0; k < m.n() + m.m(); k++) {
            char st = k < m.n() ? cs[k] : rs[k - m.n()];
            if (st == '1' || k >= (int)e.dj.size()) continue;
            bool fixed = k < m.n() ? (m.cols[k].lo == m.cols[k].up) : (m.rows[k - m.n()].sense == 'E' || (m.rows[k - m.n()].sense == 'R' && m.rows[k - m.n()].range == 0));
            if (fixed) continue;
            Q v = st == '0' ? Q(-e.dj[k]) : (st == '2' ? e.dj[k] : abs(e.dj[k]));
            if (v > worst) worst = v;
          }
          std::string w2;
          if (worst > 0 && worst < tol && verify_optimal(m, acc.x, acc.pi, nullptr, &w2)) kind = "dual-below-1e-9-with-certified-solution";
        }
        r.fail(std::string("returned-basis:not-optimal:") + kind + ":" + tag,
               "the basis handed back with OPTIMAL is not an optimal basis in exact arithmetic: cstat=" + cs + " rstat=" + rs);
      }
      else if (val != acc.value) r.fail("returned-basis:value:" + tag, "objective of the returned basis " + qstr(val) + " differs from the reported " + qstr(acc.value));
      else if (!samex) r.label("returned:alternative-optimal-vertex");   // same value, other optimal vertex: allowed? the statement says "is the reported optimal solution"
      if (r.verdict == PASS && !samex)
        r.fail("returned-basis:other-solution:" + tag, "the exact basic solution of the returned basis is not the reported x (cstat=" + cs + " rstat=" + rs + ")");
      if (r.verdict == PASS) check_verdicts(p, m, cs, rs, e, true, r, "returned");
      if (r.verdict == PASS) {
        // QSexact_verify with and without pre-step
        for (int pre = 0; pre < 2 && r.verdict == PASS; pre++) {
          QSbasis *Bv = make_basis(cs, rs);
          char res = 9;
          Q dv;
          int rc = QSexact_verify(p, Bv, pre, nullptr, nullptr, &res, qp(dv), 0);
          QSexact_set_precision(128);
          if (rc) r.fail(strprintf("verify-error:pre%d", pre), strprintf("QSexact_verify returned %d on the basis it handed back", rc));
          else if (res != 1) r.fail(strprintf("verify-rejects-own-basis:pre%d", pre), "QSexact_verify does not confirm the basis returned with OPTIMAL");
          mpq_QSfree_basis(Bv);
        }
      }
      if (r.verdict == PASS) {
        // a solve warm-started from it is OPTIMAL with the same value
        std::string err;
        mpq_QSprob q = sut_build(m, route, &err);
        if (q) {
          QSbasis *Bw = make_basis(cs, rs);
          if (getenv("QSX_DEBUG")) { mpq_QSset_param(q, QS_PARAM_SIMPLEX_DISPLAY, 1); fprintf(stderr, "DEBUG warm basis cstat=%s rstat=%s\n", cs.c_str(), rs.c_str()); g_logbuf.clear(); }
          QArr x2(m.n() + m.m()), y2(m.m());
          int st = 0;
          int rv = QSexact_solver(q, x2.v, y2.v, Bw, DUAL_SIMPLEX, &st);
          QSexact_set_precision(128);
          Q v2;
          if (getenv("QSX_DEBUG")) fprintf(stderr, "DEBUG warm log:\n%s\n", g_logbuf.c_str());
          if (rv || st != QS_LP_OPTIMAL) {
            // is it the basis, or is this LP beyond the exact driver's precision ladder anyway (C03's caveat)?
            mpq_QSprob q3 = sut_build(m, route, &err);
            int st3 = 0, rv3 = 1;
            if (q3) {
              QArr x3(m.n() + m.m()), y3(m.m());
              rv3 = QSexact_solver(q3, x3.v, y3.v, nullptr, DUAL_SIMPLEX, &st3);
              QSexact_set_precision(128);
              mpq_QSfree_prob(q3);
            }
            if (rv3 == 0 && st3 == QS_LP_OPTIMAL)
              r.fail("warm-start-from-returned-basis", strprintf("solve warm-started from the returned basis: rval=%d status=%d, while a cold solve is OPTIMAL", rv, st));
            else r.label("warm-start-not-judged:cold-solve-not-optimal-either");
          }
          else if (mpq_QSget_objval(q, qp(v2)) || v2 != acc.value) r.fail("warm-start-value", "warm-started solve gives another value");
          mpq_QSfree_basis(Bw);
          mpq_QSfree_prob(q);
        }
      }
    } else if (r.verdict == PASS) r.label("returned:singular");
    bool slack = cs.find('1') == std::string::npos;
    r.nontrivial = !e.singular && !slack && m.m() >= 2;
  }
  mpq_QSfree_prob(p);
  r.sample = c.str().substr(0, 1500);
}

// ---------------------------------------------------------------- (b) caller supplied bases, enumerated
static void c12_gen_verdict(Tape &t, Case &c) {
  GenOpts go;
  // tiny LPs: n + m <= 7 (all bases enumerated), sometimes larger (random bases)
  bool tiny = !t.chance(1, 5);
  go.maxm = tiny ? 1 + (int)t.below(3) : 4 + (int)t.below(5);
  go.maxn = tiny ? 1 + (int)t.below(4) : 4 + (int)t.below(5);
  go.bigness = 1;
  GenLP g;
  static const int fam[] = {F_OPT, F_RAND, F_SHAPE, F_FACE, F_OPT, F_INF, F_UNB};
  gen_lp_family(t, go, fam[t.below(7)], g);
  c.add_model(g.m);
  c.ops.push_back(Op("route").I(t.below(R_NROUTES)));
  if (g.m.n() + g.m.m() > 7) {
    for (int k = 0; k < 6; k++) { std::string cs, rs; gen_basis(t, g.m, cs, rs); c.ops.push_back(Op("basis").S(cs).S(rs)); }
  } else c.ops.push_back(Op("allbases").I(t.below(1000)));
}

static void enumerate_bases(const Model &m, std::vector<std::pair<std::string, std::string>> &out, size_t cap, unsigned rot) {
  int n = m.n(), mm = m.m(), N = n + mm;
  // choices of non-basic status per internal column (type-correct)
  std::vector<std::string> nb(N);
  for (int j = 0; j < n; j++) {
    bool fl = is_fin(m.cols[j].lo), fu = is_fin(m.cols[j].up);
    if (!fl && !fu) nb[j] = "3"; else { if (fl) nb[j] += '0'; if (fu) nb[j] += '2'; }
  }
  for (int i = 0; i < mm; i++) nb[n + i] = m.rows[i].sense == 'R' ? "02" : "0";
  std::vector<int> sel(N, 0);
  for (int k = 0; k < mm; k++) sel[N - 1 - k] = 1;     // first combination
  std::vector<std::vector<int>> combos;
  do { combos.push_back(sel); } while (std::next_permutation(sel.begin(), sel.end()));
  for (size_t ci = 0; ci < combos.size() && out.size() < cap; ci++) {
    const std::vector<int> &s = combos[(ci + rot) % combos.size()];
    // all status assignments of the non-basic ones
    std::vector<int> idx(N, 0);
    for (;;) {
      std::string cs(n, '0'), rs(mm, '0');
      for (int j = 0; j < N; j++) {
        char ch = s[j] ? '1' : nb[j][idx[j]];
        if (j < n) cs[j] = ch; else rs[j - n] = ch;
      }
      out.push_back({cs, rs});
      if (out.size() >= cap) break;
      int j = 0;
      for (; j < N; j++) {
        if (s[j]) continue;
        if (++idx[j] < (int)nb[j].size()) break;
        idx[j] = 0;
      }
      if (j == N) break;
    }
  }
}

static void c12_run_verdict(const Case &c, Result &r) {
  size_t pos = 0;
  Model m;
  if (!model_from_ops(c.ops, pos, m)) { r.verdict = DISCARD; return; }
  int route = 0;
  if (pos < c.ops.size() && c.ops[pos].k == "route") route = (int)c.ops[pos++].i[0];
  std::vector<std::pair<std::string, std::string>> bases;
  bool exhaustive = false;
  for (; pos < c.ops.size(); pos++) {
    const Op &o = c.ops[pos];
    if (o.k == "basis" && o.s.size() >= 2 && (int)o.s[0].size() == m.n() && (int)o.s[1].size() == m.m()) bases.push_back({o.s[0], o.s[1]});
    if (o.k == "allbases" && m.n() + m.m() <= 7) { enumerate_bases(m, bases, 600, o.i.empty() ? 0 : (unsigned)o.i[0]); exhaustive = bases.size() < 600; }
  }
  std::string why;
  mpq_QSprob p = sut_build(m, route, &why);
  if (!p) { r.fail("build:" + why, why); return; }
  int cls[4] = {0, 0, 0, 0}, nons = 0, sing = 0;
  for (auto &b : bases) {
    if (r.verdict != PASS) break;
    BasisEval e;
    basis_eval(m, b.first, b.second, e);
    if (e.singular) { sing++; continue; }   // no claim on the verdict for singular bases
    nons++;
    cls[(e.pfeas ? 2 : 0) + (e.dfeas ? 1 : 0)]++;
    check_verdicts(p, m, b.first, b.second, e, false, r, "supplied");
  }
  mpq_QSfree_prob(p);
  r.label(exhaustive ? "enumeration:exhaustive" : "enumeration:sampled");
  r.label(strprintf("bases:%s", nons == 0 ? "0" : (nons < 10 ? "1-9" : (nons < 100 ? "10-99" : "100+"))));
  if (cls[0]) r.label("class:pinf-dinf");
  if (cls[1]) r.label("class:pinf-dfeas");
  if (cls[2]) r.label("class:pfeas-dinf");
  if (cls[3]) r.label("class:pfeas-dfeas");
  if (sing) r.label("has-singular-bases");
  r.nontrivial = nons >= 2 && m.m() >= 2;
  r.canon = c.str();
  r.sample = strprintf("%d non-singular bases judged (%d singular skipped), classes pinf/dinf=%d pinf/dfeas=%d pfeas/dinf=%d pfeas/dfeas=%d\n", nons, sing, cls[0], cls[1], cls[2], cls[3]) + c.str().substr(0, 1200);
}

void register_c12() {
  register_property({"C12", "returned", c12_gen_returned, c12_run_returned, 4, 120, false});
  register_property({"C12", "verdict", c12_gen_verdict, c12_run_verdict, 4, 240, false});
}

}  // namespace qsx

// C16 -- copies are faithful and independent; reduced precision copies agree entry by entry
#include "qsx.hpp"
#include "qsx_ops.hpp"
#include <cmath>

extern "C" {
void qsx_mpq_free(mpq_t *a);
void qsx_dbl_free(double *a);
void qsx_mpf_free(mpf_t *a);
}

namespace qsx {

void gen_start_model(Tape &t, int maxm, int maxn, int big, bool allow_range, Model &m);

static const int kIntParams[] = {QS_PARAM_PRIMAL_PRICING, QS_PARAM_DUAL_PRICING, QS_PARAM_SIMPLEX_DISPLAY,
                                 QS_PARAM_SIMPLEX_MAX_ITERATIONS, QS_PARAM_SIMPLEX_SCALING};
static const int kNumParams[] = {QS_PARAM_SIMPLEX_MAX_TIME, QS_PARAM_OBJULIM, QS_PARAM_OBJLLIM};

// ---------------------------------------------------------------- stateful, two objects
static void c16_gen(Tape &t, Case &c) {
  Model m;
  gen_start_model(t, 5, 5, (int)t.below(3), true, m);
  for (int j = 0; j < m.n(); j++) m.cols[j].name = "v" + std::to_string(j);
  for (int i = 0; i < m.m(); i++) m.rows[i].name = "r" + std::to_string(i);
  // integer marks exist only on objects that come out of a reader: one case in four starts from such an object
  // (route R_FILE through the harness's own MPS text); the runner drops the marks if that route is not taken
  bool ints = m.n() > 0 && t.chance(1, 4);
  if (ints) { bool any = false; for (auto &col : m.cols) if (t.coin()) { col.isint = true; any = true; } if (!any) m.cols[0].isint = true; }
  c.add_model(m);
  c.ops.push_back(Op("route").I(ints ? (long)R_FILE : (long)t.below(R_NROUTES)));
  // parameters of the original (all of them non-default in most cases)
  Op pr("params");
  static const int pp[] = {QS_PRICE_PDANTZIG, QS_PRICE_PDEVEX, QS_PRICE_PSTEEP, QS_PRICE_PMULTPARTIAL};
  static const int dp[] = {QS_PRICE_DDANTZIG, QS_PRICE_DSTEEP, QS_PRICE_DMULTPARTIAL, QS_PRICE_DDEVEX};
  pr.I(pp[t.below(4)]).I(dp[t.below(4)]).I(t.below(4)).I(1 + t.below(5000)).I(t.below(2));
  pr.N(Q((long)t.below(1000) + 1)).N(gen_num(t, 1) + 1000).N(gen_num(t, 1) - 1000);
  c.ops.push_back(pr);
  // two interleaved histories; 'on k' switches the active object
  Model gm[2] = {m, m};
  bool alive[2] = {true, false};
  EditGen eg;
  eg.maxm = 10; eg.maxn = 10; eg.bulk = 3; eg.maxrowlen = 4; eg.maxdel = 3; eg.bigness = 1;
  eg.allow_null_names = false;
  eg.name_counter = 100;
  int active = 0;
  int len = 3 + (int)t.below(18);
  for (int s = 0; s < len; s++) {
    if (t.exhausted() && s > 2) break;
    int w = (int)t.below(12);
    if (s == 0) w = 0;                      // always start with a copy
    if (w == 0) {                           // copy active -> other
      int other = 1 - active;
      c.ops.push_back(Op("copy").I(active).I(other));
      gm[other] = gm[active];
      alive[other] = true;
      continue;
    }
    if (w == 1) { int k = (int)t.below(2); if (alive[k]) { active = k; c.ops.push_back(Op("on").I(k)); } continue; }
    if (w == 2 && alive[0] && alive[1]) {   // free one of them; the survivor becomes active
      int k = (int)t.below(2);
      c.ops.push_back(Op("free").I(k));
      alive[k] = false;
      active = 1 - k;
      c.ops.push_back(Op("on").I(active));
      continue;
    }
    if (w == 3) {
      SolveCfg cfg = gen_cfg(t, true);
      cfg.precision = 0; cfg.pprice = 0; cfg.dprice = 0; cfg.scaling = -1; cfg.display = -1;   // parameters are under test
      Op o = cfg.op();
      o.k = "solve";
      c.ops.push_back(o);
      continue;
    }
    if (!alive[active]) continue;
    Op o;
    if (!gen_edit(t, gm[active], eg, o)) continue;
    model_apply(gm[active], o, nullptr);
    c.ops.push_back(o);
  }
}

static bool params_of(mpq_QSprob p, std::vector<long> &ip, std::vector<Q> &np, std::string *why) {
  ip.clear(); np.clear();
  for (int id : kIntParams) { int v = -12345; if (mpq_QSget_param(p, id, &v)) { *why = "QSget_param failed"; return false; } ip.push_back(v); }
  for (int id : kNumParams) { Q v; if (mpq_QSget_param_EGlpNum(p, id, qp(v))) { *why = "QSget_param_EGlpNum failed"; return false; } np.push_back(v); }
  return true;
}

static void c16_run(const Case &c, Result &r) {
  size_t pos = 0;
  Model m0;
  if (!model_from_ops(c.ops, pos, m0)) { r.verdict = DISCARD; return; }
  int route = 0;
  if (pos < c.ops.size() && c.ops[pos].k == "route") route = (int)c.ops[pos++].i[0];
  std::string why;
  mpq_QSprob P[2] = {nullptr, nullptr};
  Model M[2];
  P[0] = sut_build(m0, route, &why);
  if (!P[0]) { r.fail("build:" + why, why); return; }
  bool want_int = false;
  for (auto &col : m0.cols) want_int |= col.isint;
  if (!g_built_via_file) for (auto &col : m0.cols) col.isint = false;
  if (want_int) r.label(g_built_via_file ? "start:integer-marks" : "start:integer-marks-dropped");
  M[0] = m0;
  if (pos < c.ops.size() && c.ops[pos].k == "params") {
    const Op &o = c.ops[pos++];
    for (size_t k = 0; k < 5 && k < o.i.size(); k++) mpq_QSset_param(P[0], kIntParams[k], (int)o.i[k]);
    for (size_t k = 0; k < 3 && k < o.q.size(); k++) { Q v = o.q[k]; mpq_QSset_param_EGlpNum(P[0], kNumParams[k], v.get_mpq_t()); }
  }
  int active = 0;
  bool both_touched[2] = {false, false};
  bool copied = false;
  auto check_obj = [&](int k, const std::string &ctx) {
    if (!P[k]) return true;
    Model d;
    if (!sut_dump(P[k], d, &why, false)) { r.fail("dump-inconsistent:" + ctx, "object " + std::to_string(k) + ": " + why); return false; }
    if (!model_equal(M[k], d, &why)) { r.fail("object-changed-by-other:" + ctx, "object " + std::to_string(k) + " no longer equals its own history after " + ctx + ": " + why); return false; }
    return true;
  };
  for (; pos < c.ops.size() && r.verdict == PASS; pos++) {
    const Op &o = c.ops[pos];
    if (o.k == "on") { int k = (int)o.i[0] & 1; if (P[k]) active = k; continue; }
    if (o.k == "copy") {
      int src = (int)o.i[0] & 1, dst = 1 - src;
      if (!P[src]) continue;
      if (P[dst]) { mpq_QSfree_prob(P[dst]); P[dst] = nullptr; }
      P[dst] = mpq_QScopy_prob(P[src], "the_copy");
      if (!P[dst]) { r.fail("copy-null", "QScopy_prob returned NULL"); break; }
      M[dst] = M[src];
      M[dst].name = "the_copy";
      copied = true;
      r.label("copy");
      // faithful: data, names, objective sense, parameters
      Model a, b;
      if (!sut_dump(P[src], a, &why, true) || !sut_dump(P[dst], b, &why, true)) { r.fail("dump-inconsistent:copy", why); break; }
      if (!model_equal(a, b, &why)) { r.fail("copy-differs:data", "copy differs from the original: " + why); break; }
      if (b.name != "the_copy") { r.fail("copy-differs:probname", "copy is named '" + b.name + "'"); break; }
      std::vector<long> ia, ib;
      std::vector<Q> na, nb;
      if (!params_of(P[src], ia, na, &why) || !params_of(P[dst], ib, nb, &why)) { r.fail("params-unreadable", why); break; }
      for (size_t k = 0; k < ia.size(); k++)
        if (ia[k] != ib[k]) { r.fail(strprintf("copy-differs:param%d", kIntParams[k]), strprintf("integer parameter %d: original %ld, copy %ld", kIntParams[k], ia[k], ib[k])); break; }
      if (r.verdict != PASS) break;
      for (size_t k = 0; k < na.size(); k++)
        if (na[k] != nb[k]) { r.fail(strprintf("copy-differs:param%d", kNumParams[k]), strprintf("numeric parameter %d: original %s, copy %s", kNumParams[k], qstr(na[k]).c_str(), qstr(nb[k]).c_str())); break; }
      both_touched[0] = both_touched[1] = false;
      continue;
    }
    if (o.k == "free") {
      int k = (int)o.i[0] & 1;
      if (P[k] && P[1 - k]) { mpq_QSfree_prob(P[k]); P[k] = nullptr; r.label("free-one"); if (!check_obj(1 - k, "free")) break; }
      continue;
    }
    if (!P[active]) continue;
    if (o.k == "solve") {
      SolveCfg cfg = SolveCfg::from_op(o);
      cfg.itlim = 0;
      // keep the iteration parameter as set (it is part of what is compared); bound the work otherwise
      Solution s;
      QSexact_set_precision(128);
      int it = 0;
      mpq_QSget_param(P[active], QS_PARAM_SIMPLEX_MAX_ITERATIONS, &it);
      sut_solve(P[active], cfg, nullptr, s, nullptr, nullptr);
      QSexact_set_precision(128);
      both_touched[active] = true;
      r.label("solve");
      if (!check_obj(0, "solve") || !check_obj(1, "solve")) break;
      continue;
    }
    Model before = M[active];
    if (!model_apply(M[active], o, nullptr)) { r.verdict = DISCARD; break; }
    int rc = sut_apply(P[active], o, before);
    if (rc != 0) { r.fail("valid-edit-rejected:" + o.k, strprintf("valid edit returned %d on object %d: ", rc, active) + o.str()); break; }
    both_touched[active] = true;
    if (!check_obj(0, o.k) || !check_obj(1, o.k)) break;
  }
  for (int k = 0; k < 2; k++) if (P[k]) mpq_QSfree_prob(P[k]);
  r.nontrivial = copied && both_touched[0] && both_touched[1];
  r.sample = c.str().substr(0, 2500);
}

// ---------------------------------------------------------------- reduced precision copies
static void c16_gen_lowprec(Tape &t, Case &c) {
  Model m;
  gen_start_model(t, 6, 6, 2, true, m);
  if (t.chance(1, 10)) m = Model();   // the empty problem
  for (int j = 0; j < m.n(); j++) m.cols[j].name = "v" + std::to_string(j);
  for (int i = 0; i < m.m(); i++) m.rows[i].name = "r" + std::to_string(i);
  c.add_model(m);
  c.ops.push_back(Op("route").I(t.below(R_NROUTES)));
  static const int prec[] = {64, 128, 512};
  c.ops.push_back(Op("prec").I(prec[t.below(3)]));
  Op pr("params");
  static const int pp[] = {QS_PRICE_PDANTZIG, QS_PRICE_PDEVEX, QS_PRICE_PSTEEP, QS_PRICE_PMULTPARTIAL};
  static const int dp[] = {QS_PRICE_DDANTZIG, QS_PRICE_DSTEEP, QS_PRICE_DMULTPARTIAL, QS_PRICE_DDEVEX};
  pr.I(pp[t.below(4)]).I(dp[t.below(4)]).I(t.below(4)).I(1 + t.below(5000)).I(t.below(2));
  // objective limits travel with the copy as well (finite, and in general no double)
  if (t.chance(2, 3)) { Q ul = gen_num(t, 1) + Q(1, 3), ll = -abs(gen_num(t, 2)) - Q(1, 7); ul.canonicalize(); ll.canonicalize(); pr.N(ul).N(ll); }
  c.ops.push_back(pr);
}

// |approx - exact| <= one unit in the last place of approx (double)
static bool within_ulp_double(const Q &exact, double approx) {
  if (exact == 0) return approx == 0.0;
  if (!std::isfinite(approx)) return false;
  double up = std::nextafter(approx, INFINITY), dn = std::nextafter(approx, -INFINITY);
  Q a(approx);
  Q ulp = Q(up) - a;
  Q ulp2 = a - Q(dn);
  if (ulp2 > ulp) ulp = ulp2;
  Q diff = abs(exact - a);
  return diff <= ulp;
}
static bool within_prec_mpf(const Q &exact, mpf_t approx, unsigned prec) {
  Q a;
  mpq_set_f(a.get_mpq_t(), approx);
  if (exact == 0) return a == 0;
  Q diff = abs(exact - a);
  // mpf keeps at least prec bits; allow 2^-(prec-1) relative
  return diff <= abs(exact) * qpow2(-(int)prec + 1);
}

static void c16_run_dbl(const Case &c, Result &r) {
  size_t pos = 0;
  Model m;
  if (!model_from_ops(c.ops, pos, m)) { r.verdict = DISCARD; return; }
  int route = 0;
  if (pos < c.ops.size() && c.ops[pos].k == "route") route = (int)c.ops[pos++].i[0];
  if (pos < c.ops.size() && c.ops[pos].k == "prec") pos++;
  std::string why;
  mpq_QSprob p = sut_build(m, route, &why);
  if (!p) { r.fail("build:" + why, why); return; }
  std::vector<long> ipar;
  if (pos < c.ops.size() && c.ops[pos].k == "params") {
    const Op &o = c.ops[pos++];
    for (size_t k = 0; k < 5 && k < o.i.size(); k++) mpq_QSset_param(p, kIntParams[k], (int)o.i[k]);
    if (o.q.size() >= 2) {
      Q ul = o.q[0], ll = o.q[1];
      mpq_QSset_param_EGlpNum(p, QS_PARAM_OBJULIM, ul.get_mpq_t());
      mpq_QSset_param_EGlpNum(p, QS_PARAM_OBJLLIM, ll.get_mpq_t());
      r.label("objective-limits-set");
    }
  }
  dbl_QSdata *d = QScopy_prob_mpq_dbl(p, "dbl_copy");
  if (!d) { r.fail("lowprec-copy-null:dbl", "QScopy_prob_mpq_dbl returned NULL"); mpq_QSfree_prob(p); return; }
  int n = m.n(), mm = m.m();
  do {
    if (dbl_QSget_colcount(d) != n || dbl_QSget_rowcount(d) != mm) { r.fail("lowprec:counts:dbl", "row/column counts differ"); break; }
    int os = 0;
    dbl_QSget_objsense(d, &os);
    if (os != m.objsense) { r.fail("lowprec:objsense:dbl", "objective sense differs"); break; }
    // structure through the rational problem's own column extraction (same order expected)
    int *qcnt = 0, *qbeg = 0, *qind = 0; mpq_t *qval = 0, *qobj = 0, *qlo = 0, *qup = 0;
    int *dcnt = 0, *dbeg = 0, *dind = 0; double *dval = 0, *dobj = 0, *dlo = 0, *dup = 0;
    if (mpq_QSget_columns(p, &qcnt, &qbeg, &qind, &qval, &qobj, &qlo, &qup, nullptr) ||
        dbl_QSget_columns(d, &dcnt, &dbeg, &dind, &dval, &dobj, &dlo, &dup, nullptr)) { r.fail("lowprec:get_columns:dbl", "QSget_columns failed"); break; }
    for (int j = 0; j < n && r.verdict == PASS; j++) {
      Q lo(qlo[j]), up(qup[j]), ob(qobj[j]);
      if (is_ninf(lo) ? dlo[j] != dbl_ILL_MINDOUBLE : !within_ulp_double(lo, dlo[j])) r.fail("lowprec:lower:dbl", strprintf("lower bound of column %d: %s -> %.17g", j, qstr(lo).c_str(), dlo[j]));
      if (is_pinf(up) ? dup[j] != dbl_ILL_MAXDOUBLE : !within_ulp_double(up, dup[j])) r.fail("lowprec:upper:dbl", strprintf("upper bound of column %d: %s -> %.17g", j, qstr(up).c_str(), dup[j]));
      if (!within_ulp_double(ob, dobj[j])) r.fail("lowprec:obj:dbl", strprintf("objective of column %d: %s -> %.17g", j, qstr(ob).c_str(), dobj[j]));
      if (qcnt[j] != dcnt[j]) { r.fail("lowprec:structure:dbl", strprintf("column %d has %d entries, copy %d", j, qcnt[j], dcnt[j])); break; }
      // same set of rows; compare as maps (order inside a column is not part of the contract)
      std::map<int, Q> a;
      std::map<int, double> b;
      for (int k = 0; k < qcnt[j]; k++) { a[qind[qbeg[j] + k]] = Q(qval[qbeg[j] + k]); b[dind[dbeg[j] + k]] = dval[dbeg[j] + k]; }
      for (auto &kv : a) {
        if (!b.count(kv.first)) { r.fail("lowprec:structure:dbl", strprintf("entry (%d,%d) missing in the copy", kv.first, j)); break; }
        if (!within_ulp_double(kv.second, b[kv.first])) { r.fail("lowprec:coef:dbl", strprintf("coef (%d,%d): %s -> %.17g", kv.first, j, qstr(kv.second).c_str(), b[kv.first])); break; }
      }
    }
    mpq_QSfree(qcnt); mpq_QSfree(qbeg); mpq_QSfree(qind); qsx_mpq_free(qval); qsx_mpq_free(qobj); qsx_mpq_free(qlo); qsx_mpq_free(qup);
    dbl_QSfree(dcnt); dbl_QSfree(dbeg); dbl_QSfree(dind); qsx_dbl_free(dval); qsx_dbl_free(dobj); qsx_dbl_free(dlo); qsx_dbl_free(dup);
    if (r.verdict != PASS) break;
    std::vector<double> rhs(mm + 1);
    std::vector<char> sn(mm + 1);
    if (dbl_QSget_rhs(d, rhs.data()) || dbl_QSget_senses(d, sn.data())) { r.fail("lowprec:get_rhs:dbl", "accessor failed"); break; }
    for (int i = 0; i < mm && r.verdict == PASS; i++) {
      if (sn[i] != m.rows[i].sense) r.fail("lowprec:sense:dbl", strprintf("sense of row %d differs", i));
      if (!within_ulp_double(m.rows[i].rhs, rhs[i])) r.fail("lowprec:rhs:dbl", strprintf("rhs of row %d: %s -> %.17g", i, qstr(m.rows[i].rhs).c_str(), rhs[i]));
    }
    if (r.verdict != PASS) break;
    // ranges
    {
      int *rc = 0, *rb = 0, *ri = 0; double *rv = 0, *rr = 0, *rg = 0; char *rs = 0;
      if (dbl_QSget_ranged_rows(d, &rc, &rb, &ri, &rv, &rr, &rs, &rg, nullptr)) { r.fail("lowprec:get_rows:dbl", "QSget_ranged_rows failed"); break; }
      for (int i = 0; i < mm && r.verdict == PASS; i++)
        if (m.rows[i].sense == 'R' && !within_ulp_double(m.rows[i].range, rg[i])) r.fail("lowprec:range:dbl", strprintf("range of row %d: %s -> %.17g", i, qstr(m.rows[i].range).c_str(), rg[i]));
      dbl_QSfree(rc); dbl_QSfree(rb); dbl_QSfree(ri); dbl_QSfree(rs); qsx_dbl_free(rv); qsx_dbl_free(rr); qsx_dbl_free(rg);
    }
    for (int id : kIntParams) {
      int a = -1, b = -2;
      mpq_QSget_param(p, id, &a);
      dbl_QSget_param(d, id, &b);
      if (a != b) { r.fail(strprintf("lowprec:param%d:dbl", id), strprintf("parameter %d: %d -> %d", id, a, b)); break; }
    }
    for (int id : {QS_PARAM_OBJULIM, QS_PARAM_OBJLLIM}) {
      Q a; double b = 0;
      if (mpq_QSget_param_EGlpNum(p, id, qp(a)) || dbl_QSget_param_EGlpNum(d, id, &b)) { r.fail("lowprec:numparam-unreadable:dbl", strprintf("parameter %d", id)); break; }
      if (!is_fin(a)) continue;      // the in-band infinity maps to the target type's own infinity
      if (!within_ulp_double(a, b)) { r.fail(strprintf("lowprec:param%d:dbl", id), strprintf("parameter %d: %s -> %.17g", id, qstr(a).c_str(), b)); break; }
    }
  } while (0);
  dbl_QSfree_prob(d);
  mpq_QSfree_prob(p);
  r.nontrivial = n >= 1 && mm >= 1;
  r.sample = c.str().substr(0, 2000);
}

static void c16_run_mpf(const Case &c, Result &r) {
  size_t pos = 0;
  Model m;
  if (!model_from_ops(c.ops, pos, m)) { r.verdict = DISCARD; return; }
  int route = 0;
  unsigned prec = 128;
  if (pos < c.ops.size() && c.ops[pos].k == "route") route = (int)c.ops[pos++].i[0];
  if (pos < c.ops.size() && c.ops[pos].k == "prec") prec = (unsigned)c.ops[pos++].i[0];
  std::string why;
  mpq_QSprob p = sut_build(m, route, &why);
  if (!p) { r.fail("build:" + why, why); return; }
  if (pos < c.ops.size() && c.ops[pos].k == "params") {
    const Op &o = c.ops[pos++];
    for (size_t k = 0; k < 5 && k < o.i.size(); k++) mpq_QSset_param(p, kIntParams[k], (int)o.i[k]);
    if (o.q.size() >= 2) {
      Q ul = o.q[0], ll = o.q[1];
      mpq_QSset_param_EGlpNum(p, QS_PARAM_OBJULIM, ul.get_mpq_t());
      mpq_QSset_param_EGlpNum(p, QS_PARAM_OBJLLIM, ll.get_mpq_t());
      r.label("objective-limits-set");
    }
  }
  QSexact_set_precision(prec);
  mpf_QSdata *d = QScopy_prob_mpq_mpf(p, "mpf_copy");
  if (!d) { r.fail("lowprec-copy-null:mpf", "QScopy_prob_mpq_mpf returned NULL"); mpq_QSfree_prob(p); return; }
  int n = m.n(), mm = m.m();
  r.label("prec" + std::to_string(prec));
  do {
    if (mpf_QSget_colcount(d) != n || mpf_QSget_rowcount(d) != mm) { r.fail("lowprec:counts:mpf", "row/column counts differ"); break; }
    int os = 0;
    mpf_QSget_objsense(d, &os);
    if (os != m.objsense) { r.fail("lowprec:objsense:mpf", "objective sense differs"); break; }
    int *qcnt = 0, *qbeg = 0, *qind = 0; mpq_t *qval = 0, *qobj = 0, *qlo = 0, *qup = 0;
    int *dcnt = 0, *dbeg = 0, *dind = 0; mpf_t *dval = 0, *dobj = 0, *dlo = 0, *dup = 0;
    if (mpq_QSget_columns(p, &qcnt, &qbeg, &qind, &qval, &qobj, &qlo, &qup, nullptr) ||
        mpf_QSget_columns(d, &dcnt, &dbeg, &dind, &dval, &dobj, &dlo, &dup, nullptr)) { r.fail("lowprec:get_columns:mpf", "QSget_columns failed"); break; }
    for (int j = 0; j < n && r.verdict == PASS; j++) {
      Q lo(qlo[j]), up(qup[j]), ob(qobj[j]);
      if (is_ninf(lo) ? mpf_cmp(dlo[j], mpf_ILL_MINDOUBLE) != 0 : !within_prec_mpf(lo, dlo[j], prec)) r.fail("lowprec:lower:mpf", strprintf("lower bound of column %d (%s)", j, qstr(lo).c_str()));
      if (is_pinf(up) ? mpf_cmp(dup[j], mpf_ILL_MAXDOUBLE) != 0 : !within_prec_mpf(up, dup[j], prec)) r.fail("lowprec:upper:mpf", strprintf("upper bound of column %d (%s)", j, qstr(up).c_str()));
      if (!within_prec_mpf(ob, dobj[j], prec)) r.fail("lowprec:obj:mpf", strprintf("objective of column %d (%s)", j, qstr(ob).c_str()));
      if (qcnt[j] != dcnt[j]) { r.fail("lowprec:structure:mpf", strprintf("column %d has %d entries, copy %d", j, qcnt[j], dcnt[j])); break; }
      std::map<int, int> where;
      for (int k = 0; k < dcnt[j]; k++) where[dind[dbeg[j] + k]] = dbeg[j] + k;
      for (int k = 0; k < qcnt[j]; k++) {
        int row = qind[qbeg[j] + k];
        if (!where.count(row)) { r.fail("lowprec:structure:mpf", strprintf("entry (%d,%d) missing in the copy", row, j)); break; }
        if (!within_prec_mpf(Q(qval[qbeg[j] + k]), dval[where[row]], prec)) { r.fail("lowprec:coef:mpf", strprintf("coef (%d,%d)", row, j)); break; }
      }
    }
    mpq_QSfree(qcnt); mpq_QSfree(qbeg); mpq_QSfree(qind); qsx_mpq_free(qval); qsx_mpq_free(qobj); qsx_mpq_free(qlo); qsx_mpq_free(qup);
    mpf_QSfree(dcnt); mpf_QSfree(dbeg); mpf_QSfree(dind); qsx_mpf_free(dval); qsx_mpf_free(dobj); qsx_mpf_free(dlo); qsx_mpf_free(dup);
    if (r.verdict != PASS) break;
    {
      int *rc = 0, *rb = 0, *ri = 0; mpf_t *rv = 0, *rr = 0, *rg = 0; char *rs = 0;
      if (mpf_QSget_ranged_rows(d, &rc, &rb, &ri, &rv, &rr, &rs, &rg, nullptr)) { r.fail("lowprec:get_rows:mpf", "QSget_ranged_rows failed"); break; }
      for (int i = 0; i < mm && r.verdict == PASS; i++) {
        if (rs[i] != m.rows[i].sense) r.fail("lowprec:sense:mpf", strprintf("sense of row %d differs", i));
        if (!within_prec_mpf(m.rows[i].rhs, rr[i], prec)) r.fail("lowprec:rhs:mpf", strprintf("rhs of row %d", i));
        if (m.rows[i].sense == 'R' && !within_prec_mpf(m.rows[i].range, rg[i], prec)) r.fail("lowprec:range:mpf", strprintf("range of row %d", i));
      }
      mpf_QSfree(rc); mpf_QSfree(rb); mpf_QSfree(ri); mpf_QSfree(rs); qsx_mpf_free(rv); qsx_mpf_free(rr); qsx_mpf_free(rg);
    }
    for (int id : kIntParams) {
      int a = -1, b = -2;
      mpq_QSget_param(p, id, &a);
      mpf_QSget_param(d, id, &b);
      if (a != b) { r.fail(strprintf("lowprec:param%d:mpf", id), strprintf("parameter %d: %d -> %d", id, a, b)); break; }
    }
    for (int id : {QS_PARAM_OBJULIM, QS_PARAM_OBJLLIM}) {
      Q a;
      mpf_t b;
      mpf_init(b);
      bool bad = mpq_QSget_param_EGlpNum(p, id, qp(a)) || mpf_QSget_param_EGlpNum(d, id, &b);
      if (bad) r.fail("lowprec:numparam-unreadable:mpf", strprintf("parameter %d", id));
      else if (is_fin(a) && !within_prec_mpf(a, b, prec)) r.fail(strprintf("lowprec:param%d:mpf", id), strprintf("parameter %d: %s is not kept to %u bits", id, qstr(a).c_str(), prec));
      mpf_clear(b);
      if (r.verdict != PASS) break;
    }
  } while (0);
  mpf_QSfree_prob(d);
  mpq_QSfree_prob(p);
  QSexact_set_precision(128);
  r.nontrivial = n >= 1 && mm >= 1;
  r.sample = c.str().substr(0, 2000);
}

void register_c16() {
  register_property({"C16", "", c16_gen, c16_run, 4, 120, false});
  register_property({"C16", "dbl", c16_gen_lowprec, c16_run_dbl, 3, 60, false});
  register_property({"C16", "mpf", c16_gen_lowprec, c16_run_mpf, 3, 60, false});
}

}  // namespace qsx

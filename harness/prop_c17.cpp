// C17 -- no call sequence is memory-unsafe, and results are reproducible
// (memory safety proper is watched by the sanitizers in every check of every property; this file adds the
// determinism oracle: the same history in fresh processes under perturbed allocator contents / address
// space layout / build flavour must produce a byte-identical transcript, and a valgrind memcheck pass)
#include "qsx_io.hpp"
#include "qsx_ops.hpp"
#include <fcntl.h>
#include <sys/wait.h>
#include <unistd.h>

namespace qsx {

void gen_history(Tape &t, Case &c, int maxlen, bool allow_copy, int solve_weight);
QSbasis *make_basis(const std::string &cstat, const std::string &rstat);

static std::string vecstr(const std::vector<Q> &v) {
  std::string o;
  for (auto &x : v) o += qstr(x) + " ";
  return o;
}

// executes a history and returns everything observable: return codes, statuses, exact solutions, bases,
// the problem as seen through the query API, and the bytes of written files
std::string transcript_run(const Case &c) {
  std::string T;
  size_t pos = 0;
  Model m;
  if (!model_from_ops(c.ops, pos, m)) return "DISCARD\n";
  int route = 0;
  if (pos < c.ops.size() && c.ops[pos].k == "route") route = (int)c.ops[pos++].i[0];
  std::string why;
  mpq_QSprob p = sut_build(m, route, &why);
  if (!p) return "BUILD-FAILED " + why + "\n";
  for (; pos < c.ops.size(); pos++) {
    const Op &o = c.ops[pos];
    if (o.k == "solve") {
      SolveCfg cfg = SolveCfg::from_op(o);
      if (cfg.entry != 0 && cfg.itlim == 0) cfg.itlim = 500;
      cfg.display = -1;
      Solution s;
      std::vector<Q> xf, y;
      QSbasis *B = cfg.entry == 0 ? (QSbasis *)calloc(1, sizeof(QSbasis)) : nullptr;
      QSexact_set_precision(128);
      sut_solve(p, cfg, B, s, &xf, &y);
      QSexact_set_precision(128);
      T += strprintf("solve %s rval=%d status=%d\n", cfg.str().c_str(), s.rval, s.status);
      if (s.rval == 0 && s.status == QS_LP_OPTIMAL) {
        Solution a;
        if (sut_fetch_solution(p, a, &why)) T += " value " + qstr(a.value) + "\n x " + vecstr(a.x) + "\n pi " + vecstr(a.pi) + "\n rc " + vecstr(a.rc) + "\n slack " + vecstr(a.slack) + "\n";
        else T += " accessors-failed\n";
      }
      if (s.rval == 0 && s.status == QS_LP_INFEASIBLE && cfg.entry == 0 && cfg.want_y) T += " farkas " + vecstr(y) + "\n";
      if (B) { if (B->cstat || B->rstat) T += " ebasis " + std::string(B->cstat ? B->cstat : "", B->cstat ? B->nstruct : 0) + "/" + std::string(B->rstat ? B->rstat : "", B->rstat ? B->nrows : 0) + "\n"; mpq_QSfree_basis(B); }
      int n = mpq_QSget_colcount(p), mm = mpq_QSget_rowcount(p);
      std::string cs(n, '?'), rs(mm, '?');
      if (mpq_QSget_basis_array(p, &cs[0], &rs[0]) == 0) T += " basis " + cs + "/" + rs + "\n";
      int it[5] = {0, 0, 0, 0, 0};
      (void)it;
      continue;
    }
    if (o.k == "probe") { Solution a; T += std::string("probe ") + (sut_fetch_solution(p, a, &why) ? "served " + qstr(a.value) : "refused") + "\n"; continue; }
    if (o.k == "loadbasis") {
      if (o.s.size() >= 2 && (int)o.s[0].size() == m.n() && (int)o.s[1].size() == m.m()) {
        QSbasis *B = make_basis(o.s[0], o.s[1]);
        T += strprintf("loadbasis rc=%d\n", mpq_QSload_basis(p, B));
        mpq_QSfree_basis(B);
      }
      continue;
    }
    if (o.k == "copy") {
      mpq_QSprob q = mpq_QScopy_prob(p, "copy");
      T += std::string("copy ") + (q ? "ok" : "NULL") + "\n";
      if (q) { if (!o.i.empty() && o.i[0] == 1) mpq_QSfree_prob(q); else { mpq_QSfree_prob(p); p = q; } }
      continue;
    }
    Model before = m;
    if (!model_apply(m, o, nullptr)) { T += "invalid-op\n"; break; }
    T += strprintf("edit %s rc=%d\n", o.k.c_str(), sut_apply(p, o, before));
  }
  // the problem as observable at the end, and the files the writers produce for it
  Model d;
  if (sut_dump(p, d, &why, false)) T += "final-problem\n" + d.text(); else T += "final-dump-failed " + why + "\n";
  bool used = false;
  for (auto &r : d.rows) if (!r.a.empty()) used = true;
  if (used && d.n() > 0) {
    for (int k = 0; k < 2; k++) {
      std::string path;
      size_t mark = g_logbuf.size();
      if (sut_write_file(p, k ? "MPS" : "LP", 0, path, &why)) { bool ok; std::string txt = read_file(path, &ok); T += strprintf("written %s %zu bytes hash %016llx\n", k ? "MPS" : "LP", txt.size(), (unsigned long long)fnv64(txt)); }
      else T += std::string("write-failed ") + (k ? "MPS" : "LP") + "\n";
      (void)mark;
    }
    if (mpq_QSwrite_basis(p, nullptr, "t.bas") == 0) { bool ok; std::string txt = read_file("t.bas", &ok); T += strprintf("basis-file hash %016llx\n", (unsigned long long)fnv64(txt)); }
  }
  mpq_QSfree_prob(p);
  return T;
}

static void c17_gen(Tape &t, Case &c) { gen_history(t, c, 9, true, 4); }

static bool run_capture(const std::vector<std::string> &argv, const std::vector<std::pair<std::string, std::string>> &envs, std::string &out, int &rc) {
  int fds[2];
  if (pipe(fds) != 0) return false;
  pid_t pid = fork();
  if (pid < 0) return false;
  if (pid == 0) {
    close(fds[0]);
    dup2(fds[1], 1);
    int nfd = open("/dev/null", O_WRONLY);
    if (nfd >= 0 && !getenv("QSX_DEBUG")) dup2(nfd, 2);
    for (auto &e : envs) setenv(e.first.c_str(), e.second.c_str(), 1);
    std::vector<char *> a;
    for (auto &s : argv) a.push_back((char *)s.c_str());
    a.push_back(nullptr);
    alarm(280);
    execvp(a[0], a.data());
    _exit(127);
  }
  close(fds[1]);
  out.clear();
  char buf[65536];
  ssize_t k;
  while ((k = read(fds[0], buf, sizeof buf)) > 0) out.append(buf, (size_t)k);
  close(fds[0]);
  int st = 0;
  waitpid(pid, &st, 0);
  rc = WIFSIGNALED(st) ? -WTERMSIG(st) : WEXITSTATUS(st);
  return true;
}

static void c17_run(const Case &c, Result &r) {
  const char *basan = getenv("QSX_BIN_ASAN"), *bopt = getenv("QSX_BIN_OPT"), *bval = getenv("QSX_BIN_VAL");
  if (!basan || !bopt) { r.verdict = INCONCLUSIVE; r.msg = "flavour binaries not configured"; return; }
  std::string here = transcript_run(c);
  if (here.rfind("DISCARD", 0) == 0) { r.verdict = DISCARD; return; }
  write_file("c17.case", "QSXREPLAY 1\nproperty C17\nvariant \ncase\n" + c.str() + "end\n");
  struct Env { const char *name; std::vector<std::string> argv; std::vector<std::pair<std::string, std::string>> env; };
  std::vector<Env> envs;
  envs.push_back({"asan/fill=0xbe", {basan, "transcript-one", "c17.case"}, {{"ASAN_OPTIONS", "detect_leaks=0:malloc_fill_byte=190:max_malloc_fill_size=1048576:exitcode=97"}}});
  envs.push_back({"asan/fill=0x00", {basan, "transcript-one", "c17.case"}, {{"ASAN_OPTIONS", "detect_leaks=0:malloc_fill_byte=0:max_malloc_fill_size=1048576:exitcode=97"}}});
  envs.push_back({"opt/perturb=0x5a", {bopt, "transcript-one", "c17.case"}, {{"MALLOC_PERTURB_", "90"}}});
  envs.push_back({"opt/perturb=0xff+noaslr", {"setarch", "x86_64", "-R", bopt, "transcript-one", "c17.case"}, {{"MALLOC_PERTURB_", "255"}}});
  bool want_valgrind = bval && !c.ops.empty() && (fnv64(c.str()) % 97) < (uint64_t)atoi(getenv("QSX_VALGRIND_PERMILLE") ? getenv("QSX_VALGRIND_PERMILLE") : "0");
  if (want_valgrind)
    envs.push_back({"valgrind", {"valgrind", "-q", "--error-exitcode=99", "--undef-value-errors=yes", "--track-origins=no", bval, "transcript-one", "c17.case"}, {}});
  for (auto &e : envs) {
    std::string out;
    int rc = 0;
    if (!run_capture(e.argv, e.env, out, rc)) { r.verdict = INCONCLUSIVE; r.msg = "cannot spawn"; return; }
    r.label(std::string("env:") + e.name);
    if (rc == -14) { r.label("env-timeout"); continue; }
    if (rc != 0) {
      r.fail(std::string("fresh-process-died:") + e.name + strprintf(":%d", rc), strprintf("re-execution under %s ended with status %d", e.name, rc));
      return;
    }
    if (out != here) {
      // first differing line
      std::istringstream a(here), b(out);
      std::string la, lb;
      int ln = 0;
      while (true) {
        bool ha = (bool)std::getline(a, la), hb = (bool)std::getline(b, lb);
        ln++;
        if (!ha && !hb) break;
        if (!ha || !hb || la != lb) break;
      }
      std::string kind = la.substr(0, la.find(' '));
      r.fail(std::string("nondeterministic:") + kind, strprintf("transcript differs under %s at line %d:\n  here : %s\n  there: %s", e.name, ln, la.substr(0, 300).c_str(), lb.substr(0, 300).c_str()));
      return;
    }
  }
  bool solve = false, edit = false;
  for (auto &o : c.ops) { if (o.k == "solve") solve = true; if (o.k.rfind("chg", 0) == 0 || o.k.rfind("add", 0) == 0 || o.k.rfind("del", 0) == 0 || o.k.rfind("new", 0) == 0) edit = true; }
  r.nontrivial = solve && edit;
  r.canon = here;
  r.sample = here.substr(0, 1200);
}

// ---- "mem": the histories of C05 and the bulk edit sequences of C06 executed on the sanitizer build purely for
// their memory behaviour (the functional oracles belong to C05 / C06: their verdicts are only labelled here).
// Far more histories per second than the cross-environment differential above, start objects from the file
// readers included; any ASan / UBSan report or crash kills the child and is the failure.
void c05_run(const Case &c, Result &r);
void c06_run(const Case &c, Result &r);
void c05_gen_public(Tape &t, Case &c);
void c06_gen_bulk_public(Tape &t, Case &c);
static void c17_gen_mem(Tape &t, Case &c) { c05_gen_public(t, c); }
static void c17_run_mem(const Case &c, Result &r) {
  Result inner;
  c05_run(c, inner);
  if (inner.verdict == DISCARD) { r.verdict = DISCARD; return; }
  for (auto &l : inner.labels) if (l.rfind("solve:", 0) == 0 || l.rfind("start:", 0) == 0 || l.rfind("delslack:done", 0) == 0) r.labels.push_back(l);
  if (inner.verdict == FAIL) r.label("inner-oracle-failed:" + inner.sig.substr(0, 40));
  r.nontrivial = inner.nontrivial;
  r.sample = c.str().substr(0, 1500);
}
void c06_gen_public(Tape &t, Case &c);
static void c17_gen_mem6(Tape &t, Case &c) { if (t.chance(1, 3)) c06_gen_bulk_public(t, c); else c06_gen_public(t, c); }
static void c17_run_mem6(const Case &c, Result &r) {
  Result inner;
  c06_run(c, inner);
  if (inner.verdict == DISCARD) { r.verdict = DISCARD; return; }
  if (inner.verdict == FAIL) r.label("inner-oracle-failed:" + inner.sig.substr(0, 40));
  r.nontrivial = inner.nontrivial;
  r.sample = c.str().substr(0, 1500);
}

void register_c17() {
  register_property({"C17", "", c17_gen, c17_run, 4, 600, false});
  register_property({"C17", "mem", c17_gen_mem, c17_run_mem, 4, 240, false});
  register_property({"C17", "mem6", c17_gen_mem6, c17_run_mem6, 6, 120, false});
}

}  // namespace qsx

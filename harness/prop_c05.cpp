// C05 -- re-solving after edits equals solving from scratch; no stale solution is served
#include "qsx.hpp"
#include "qsx_ops.hpp"

namespace qsx {

QSbasis *make_basis(const std::string &cstat, const std::string &rstat);
void gen_basis(Tape &t, const Model &m, std::string &cstat, std::string &rstat);

static const char *stname5(int st) {
  switch (st) {
  case QS_LP_OPTIMAL: return "OPTIMAL";
  case QS_LP_INFEASIBLE: return "INFEASIBLE";
  case QS_LP_UNBOUNDED: return "UNBOUNDED";
  case QS_LP_ITER_LIMIT: return "ITER_LIMIT";
  case QS_LP_UNSOLVED: return "UNSOLVED";
  case QS_LP_MODIFIED: return "MODIFIED";
  default: return "OTHER";
  }
}
static bool definitive5(int st) { return st == QS_LP_OPTIMAL || st == QS_LP_INFEASIBLE || st == QS_LP_UNBOUNDED; }

// history generator shared with C16/C17/C18/C20 (they reuse the op vocabulary)
static bool g_adaptive_tail = false;   // only C05's own runner knows the delslack op
void gen_history(Tape &t, Case &c, int maxlen, bool allow_copy, int solve_weight) {
  GenOpts go;
  go.maxm = 1 + (int)t.below(6); go.maxn = 1 + (int)t.below(6); go.bigness = 1;
  if (t.chance(1, 4)) { go.minm = 4; go.maxm = 4 + (int)t.below(6); go.minn = 3; go.maxn = 3 + (int)t.below(6); }   // enough rows for the row-wise pricing paths
  GenLP g;
  static const int fam[] = {F_OPT, F_OPT, F_RAND, F_SHAPE, F_FACE, F_OPT, F_ILL, F_RAND, F_INF};
  int route = (int)t.below(R_NROUTES);
  if (route == R_FILE) {
    // a start object from the file readers: at least four rows (below that the simplex never takes its row-wise
    // paths), families whose models survive the trip through a file unchanged
    static const int ffam[] = {F_OPT, F_COVER, F_RAND, F_OPT, F_COVER};
    go.minm = 4; go.maxm = 4 + (int)t.below(6); go.minn = 3; go.maxn = 3 + (int)t.below(7);
    gen_lp_family(t, go, ffam[t.below(5)], g);
  }
  else if (t.chance(1, 12)) { g.m = Model(); g.m.objsense = t.coin() ? -1 : 1; g.family = "empty"; }
  else gen_lp_family(t, go, fam[t.below(9)], g);
  c.add_model(g.m);
  c.ops.push_back(Op("route").I(route));
  // an object that comes from the file readers keeps its reader-made internals (row-major matrix copy, exactly
  // sized arrays) only until the first structural edit: such histories mostly change values
  bool value_edits = route == R_FILE && t.chance(3, 4);
  Model gm = g.m;
  EditGen eg;
  eg.maxm = 10; eg.maxn = 10; eg.bulk = 3; eg.maxrowlen = 5; eg.maxdel = 3; eg.bigness = 1;
  eg.allow_null_names = false; eg.allow_zero_coef = true;
  eg.name_counter = 100;
  int len = 2 + (int)t.below((uint32_t)maxlen);
  for (int s = 0; s < len; s++) {
    if (t.exhausted()) break;
    int w = (int)t.below(10 + (uint32_t)solve_weight);
    if (w < solve_weight) {
      SolveCfg cfg = gen_cfg(t, true);
      cfg.precision = 0;
      Op o = cfg.op();
      o.k = "solve";
      c.ops.push_back(o);
      if (t.chance(1, 4)) c.ops.push_back(Op("probe"));
      continue;
    }
    if (w == solve_weight) { c.ops.push_back(Op("probe")); continue; }
    if (g_adaptive_tail && t.chance(1, 10)) { c.ops.push_back(Op("norms").I(t.below(5))); continue; }
    if (w == solve_weight + 1 && gm.m() + gm.n() > 0) {
      std::string cs, rs;
      gen_basis(t, gm, cs, rs);
      Op o("loadbasis");
      o.I(t.below(2)).S(cs).S(rs);
      c.ops.push_back(o);
      continue;
    }
    if (w == solve_weight + 2 && allow_copy) {
      c.ops.push_back(Op("copy").I(t.below(2)));
      continue;
    }
    Op o;
    static const int vk[] = {8, 9, 8, 10, 11, 13, 14, 9};
    if (!gen_edit(t, gm, eg, o, value_edits && t.chance(4, 5) ? vk[t.below(8)] : -1)) continue;
    model_apply(gm, o, nullptr);
    c.ops.push_back(o);
    if (t.chance(1, 5)) c.ops.push_back(Op("probe"));
  }
  // Adaptive tail (about a third of the histories): solve, then delete two or three rows that are NOT tight at
  // the optimum just found -- the one kind of delete after which the library keeps its cached solution -- in an
  // order chosen here, probe the accessors, and let the final solve below start from what was retained.  Which
  // rows are slack is only known at run time, so the op carries selectors and the runner picks the rows; nothing
  // generated follows it except probes and solves, which do not depend on the row count.
  if (g_adaptive_tail && t.chance(1, 3)) {
    // two or three rows that cannot be tight: over boxed columns with a right-hand side beyond what the box
    // allows (or empty rows with a slack right-hand side)
    int nslack = 2 + (int)t.below(2);
    for (int k = 0; k < nslack; k++) {
      std::vector<int> boxed;
      for (int j = 0; j < gm.n(); j++) if (is_fin(gm.cols[j].lo) && is_fin(gm.cols[j].up)) boxed.push_back(j);
      std::vector<int> cols;
      while (!boxed.empty() && (int)cols.size() < 3 && t.chance(2, 3)) {
        int posi = (int)t.below((uint32_t)boxed.size());
        cols.push_back(boxed[posi]);
        boxed.erase(boxed.begin() + posi);
      }
      bool le = t.coin();
      Q extreme = 0;
      std::vector<Q> coef;
      for (int j : cols) {
        Q a = gen_nz(t, 1);
        coef.push_back(a);
        Q v1 = a * gm.cols[j].lo, v2 = a * gm.cols[j].up;
        extreme += le ? (v1 > v2 ? v1 : v2) : (v1 < v2 ? v1 : v2);
      }
      Q gap = abs(gen_nz(t, 1));
      Op ar("addrows");
      ar.I(0).I(1).I(le ? 'L' : 'G').I((long)cols.size());
      ar.N(le ? Q(extreme + gap) : Q(extreme - gap)).N(Q(0));
      for (size_t x = 0; x < cols.size(); x++) { ar.I(cols[x]); ar.N(coef[x]); }
      ar.S(strprintf("slk%d_%d", eg.name_counter++, k));
      if (!model_apply(gm, ar, nullptr)) continue;
      c.ops.push_back(ar);
    }
    SolveCfg c1 = gen_cfg(t, true);
    c1.precision = 0;
    if (t.chance(2, 3)) c1.entry = 1 + (int)t.below(2);     // the direct simplex leaves cache + basis + factorization
    Op so = c1.op();
    so.k = "solve";
    c.ops.push_back(so);
    Op d("delslack");
    d.I(t.below(4)).I(t.below(5));                 // order: 0 as picked, 1 descending, 2 ascending, 3 rotate; API variant
    for (int k = 0; k < 3; k++) d.I(t.below(64));  // selectors
    d.I(2 + (int)t.below(2));                      // how many
    c.ops.push_back(d);
    if (t.chance(3, 4)) c.ops.push_back(Op("probe"));
  }
  // Tail for objects that come from the file readers (they carry a row-major copy of the matrix that the simplex
  // uses for its row-wise computations as long as no structural edit has dropped it): direct solve, overwrite an
  // existing coefficient (often just its sign), move the right-hand side of that row so that the old basis
  // becomes infeasible, and let the final solve below re-optimise
  if (g_adaptive_tail && route == R_FILE && gm.m() > 0 && t.chance(3, 4)) {
    SolveCfg c1 = gen_cfg(t, true);
    c1.precision = 0;
    c1.entry = 1 + (int)t.below(2);
    if (t.chance(2, 3)) c1.entry = 2;
    Op so = c1.op();
    so.k = "solve";
    c.ops.push_back(so);
    int nedit = 1 + (int)t.below(3);
    for (int e = 0; e < nedit; e++) {
      int i = (int)t.below((uint32_t)gm.m());
      if (gm.rows[i].a.empty()) continue;
      auto it = gm.rows[i].a.begin();
      std::advance(it, t.below((uint32_t)gm.rows[i].a.size()));
      Q nv = t.chance(1, 2) ? Q(-it->second) : gen_nz(t, 1);
      Op cc("chgcoef");
      cc.I(i).I(it->first).N(nv);
      if (model_apply(gm, cc, nullptr)) c.ops.push_back(cc);
      if (t.chance(1, 3)) {     // the sense of a row decides the sign of its logical's matrix entry
        static const char sn[] = {'L', 'G', 'E'};
        int i2 = (int)t.below((uint32_t)gm.m());
        Op cs("chgsense");
        cs.I(0).I(i2).I(sn[t.below(3)]);
        if (model_apply(gm, cs, nullptr)) c.ops.push_back(cs);
      }
      if (t.chance(2, 3)) {
        Op cr("chgrhs");
        cr.I(i).N(gm.rows[i].rhs + gen_nz(t, 1));
        if (model_apply(gm, cr, nullptr)) c.ops.push_back(cr);
      }
    }
    if (t.chance(1, 3)) c.ops.push_back(Op("probe"));
    SolveCfg c2 = gen_cfg(t, true);
    c2.precision = 0;
    c2.entry = t.chance(3, 4) ? 2 : 1;
    Op so2 = c2.op();
    so2.k = "solve";
    c.ops.push_back(so2);
  }
  // always end with a solve so that the last edits are judged
  SolveCfg cfg = gen_cfg(t, true);
  cfg.precision = 0;
  Op o = cfg.op();
  o.k = "solve";
  c.ops.push_back(o);
}

static void c05_gen(Tape &t, Case &c) { g_adaptive_tail = true; gen_history(t, c, 14, true, 3); g_adaptive_tail = false; }

void c05_gen_public(Tape &t, Case &c) { c05_gen(t, c); }

// fresh exact solve of a model -> (status, value); status 0 on error
static void scratch_solve(const Model &m, int &status, Q &value, Solution *sol) {
  status = 0;
  std::string err;
  mpq_QSprob p = sut_build(m, R_LOAD, &err);
  if (!p) return;
  QArr x(m.n() + m.m()), y(m.m());
  int st = 0;
  int rv = QSexact_solver(p, x.v, y.v, nullptr, DUAL_SIMPLEX, &st);
  QSexact_set_precision(128);
  if (rv == 0) {
    status = st;
    if (st == QS_LP_OPTIMAL) {
      Solution s;
      std::string why;
      if (sut_fetch_solution(p, s, &why)) { value = s.value; if (sol) *sol = s; }
      else status = 0;
    }
  }
  mpq_QSfree_prob(p);
}

void c05_run(const Case &c, Result &r) {
  size_t pos = 0;
  Model m;
  if (!model_from_ops(c.ops, pos, m)) { r.verdict = DISCARD; return; }
  int route = 0;
  if (pos < c.ops.size() && c.ops[pos].k == "route") route = (int)c.ops[pos++].i[0];
  std::string why;
  mpq_QSprob p = sut_build(m, route, &why);
  if (!p) { r.fail("build:" + why, why); return; }
  if (route == R_FILE) r.label(g_built_via_file ? "start:file-read-object" : "start:file-route-fell-back");
  bool solved_once = false, edited_since_solve = false, warm_resolve = false;
  bool nondefault_sticky = false;   // a pricing rule or an iteration limit has been set on this object
  bool last_solve_optimal = false;  // the last solve on this object ended OPTIMAL (edits since then do not reset it)
  bool last_optimal = false;        // the last solve ended OPTIMAL and nothing was edited since
  std::vector<Q> last_x;
  std::string last_edit;
  for (; pos < c.ops.size() && r.verdict == PASS; pos++) {
    const Op &o = c.ops[pos];
    if (o.k == "solve") {
      SolveCfg cfg = SolveCfg::from_op(o);
      if (cfg.entry != 0 && cfg.itlim == 0) cfg.itlim = std::max(2000, 50 * (m.n() + m.m()));
      if (cfg.pprice != 0 || cfg.dprice != 0 || cfg.itlim != 0) nondefault_sticky = true;
      Solution s;
      std::vector<Q> xf, y;
      QSexact_set_precision(128);
      sut_solve(p, cfg, nullptr, s, &xf, &y);
      QSexact_set_precision(128);
      std::string tag = cfg.entry == 0 ? "exact" : (cfg.entry == 1 ? "primal" : "dual");
      r.label("solve:" + tag + ":" + (s.rval ? "error" : stname5(s.status)));
      if (solved_once && edited_since_solve) { warm_resolve = true; r.label("resolve-after:" + last_edit + "/" + tag); }
      int fst = 0;
      Q fval;
      scratch_solve(m, fst, fval, nullptr);
      last_optimal = false;
      last_solve_optimal = s.rval == 0 && s.status == QS_LP_OPTIMAL;
      if (!definitive5(fst)) { r.label("scratch-nondefinitive"); solved_once = true; edited_since_solve = false; continue; }
      if (s.rval != 0 || !definitive5(s.status)) {
        if (cfg.entry == 0 && !model_is_moderate(m)) r.label("exact:nondefinitive-immoderate-data");   // outside C03's promise
        else if (cfg.entry == 0 && nondefault_sticky) r.label("exact:nondefinitive-nondefault-config");   // as in C04: a pricing rule / limit set on the object persists
        else if (cfg.entry == 0)
          r.fail("resolve-nondefinitive:exact", strprintf("after history, QSexact_solver returned rval=%d status=%s but a fresh copy of the LP solves to %s", s.rval, stname5(s.status), stname5(fst)) + "\nlog: " + g_logbuf.substr(0, 600));
        else if (s.rval == 0 && s.status == QS_LP_ITER_LIMIT) r.label("direct:iter-cap");
        else if (s.rval != 0) r.fail("resolve-error:" + tag, strprintf("mpq_QSopt_%s returned error %d after edits (fresh copy: %s)", tag.c_str(), s.rval, stname5(fst)) + "\nlog: " + g_logbuf.substr(0, 600));
        else r.label("direct:nondefinitive");
        solved_once = true; edited_since_solve = false;
        continue;
      }
      if (s.status != fst) {
        r.fail("resolve-vs-scratch:status:" + tag, std::string("re-solve says ") + stname5(s.status) + " [" + cfg.str() + "], a freshly built copy of the current LP says " + stname5(fst));
        break;
      }
      if (s.status == QS_LP_OPTIMAL) {
        Solution acc;
        if (!sut_fetch_solution(p, acc, &why)) { r.fail("accessor-after-solve", why); break; }
        std::string sig;
        if (!check_solution(m, acc, &sig, &why)) {
          std::string dump = "\nx:";
          for (auto &v : acc.x) dump += " " + qstr(v);
          dump += "\npi:";
          for (auto &v : acc.pi) dump += " " + qstr(v);
          dump += "\nslack:";
          for (auto &v : acc.slack) dump += " " + qstr(v);
          dump += "\nrc:";
          for (auto &v : acc.rc) dump += " " + qstr(v);
          r.fail(sig + ":resolve:" + tag, "re-solve reported OPTIMAL but its solution fails against the current LP: " + why + dump);
          break;
        }
        if (acc.value != fval) { r.fail("resolve-vs-scratch:value:" + tag, "re-solve value " + qstr(acc.value) + " vs fresh copy " + qstr(fval)); break; }
        last_optimal = true;
        last_x = acc.x;
      } else last_optimal = false;
      solved_once = true; edited_since_solve = false;
      continue;
    }
    if (o.k == "probe") {
      // between an edit and the next solve every accessor must fail or still be exactly optimal
      Solution acc;
      int n = mpq_QSget_colcount(p), mm = mpq_QSget_rowcount(p);
      if (n != m.n() || mm != m.m()) { r.fail("counts", "row/column counts differ from the model"); break; }
      if (sut_fetch_solution(p, acc, &why)) {
        std::string sig;
        r.label(edited_since_solve ? "probe:served-after-edit" : "probe:served");
        if (!check_solution(m, acc, &sig, &why)) {
          r.fail("stale-solution:" + sig + ":after-" + (last_edit.empty() ? "none" : last_edit),
                 "accessors serve a solution that is not optimal for the LP as it now stands (last edit: " + last_edit + "): " + why);
          break;
        }
      } else {
        r.label("probe:refused");
        // the combined fetch stops at the first refusal; whatever an individual accessor still serves must
        // belong to an optimal solution of the LP as it stands now
        AccessorProbe ap;
        sut_probe_accessors(p, ap);
        // (only where there is a solution that an edit can have made stale: this object's last solve ended
        // OPTIMAL and it was edited since.  On a never-solved object and after a solve that did not end OPTIMAL,
        // QSget_objval deliberately reports the objective value the simplex holds, which is not a "solution")
        if (edited_since_solve && solved_once && last_solve_optimal && (ap.objval_ok || ap.x_ok || ap.pi_ok)) {
          int fst = 0;
          Q fval;
          scratch_solve(m, fst, fval, nullptr);
          std::string after = last_edit.empty() ? "none" : last_edit, w2;
          if (definitive5(fst)) {
            r.label("probe:single-accessor-served");
            if (fst != QS_LP_OPTIMAL) {
              r.fail("stale-solution:served-for-LP-without-optimum:after-" + after, std::string("an accessor returns a solution although the current LP is ") + stname5(fst) +
                     strprintf(" (objval %d, x %d, pi %d, slack %d, rc %d; status %d)", (int)ap.objval_ok, (int)ap.x_ok, (int)ap.pi_ok, (int)ap.slack_ok, (int)ap.rc_ok, ap.status));
            } else if (ap.objval_ok && ap.objval != fval) {
              r.fail("stale-solution:objval:after-" + after, "QSget_objval serves " + qstr(ap.objval) + ", the optimum of the current LP is " + qstr(fval));
            } else if (ap.x_ok) {
              Q cx = 0;
              for (int j = 0; j < m.n(); j++) cx += m.cols[j].obj * ap.x[j];
              if (!primal_feasible(m, ap.x, &w2)) r.fail("stale-solution:x-infeasible:after-" + after, "QSget_x_array serves a point that violates the current LP: " + w2);
              else if (cx != fval) r.fail("stale-solution:x-not-optimal:after-" + after, "QSget_x_array serves a feasible point of value " + qstr(cx) + ", the optimum is " + qstr(fval));
            }
            if (r.verdict == PASS && ap.pi_ok && fst == QS_LP_OPTIMAL) {
              Q bound;
              if (!dual_bound_of(m, ap.pi, bound, &w2)) r.fail("stale-solution:pi-infeasible:after-" + after, "QSget_pi_array serves multipliers that are not dual feasible for the current LP: " + w2);
              else if (bound != fval) r.fail("stale-solution:pi-not-optimal:after-" + after, "QSget_pi_array proves the bound " + qstr(bound) + ", the optimum is " + qstr(fval));
            }
            if (r.verdict != PASS) break;
          }
        }
      }
      continue;
    }
    if (o.k == "delslack") {
      if (o.i.size() < 6 || !last_optimal || (int)last_x.size() < m.n()) { r.label("delslack:skipped"); continue; }
      std::vector<int> slackrows;
      for (int i = 0; i < m.m(); i++) {
        const Row &rw = m.rows[i];
        Q a = 0;
        for (auto &kv : rw.a) a += kv.second * last_x[kv.first];
        bool tight = rw.sense == 'E' || a == rw.rhs || (rw.sense == 'R' && a == rw.rhs + rw.range);
        if (!tight) slackrows.push_back(i);
      }
      int want = (int)o.i[5];
      if ((int)slackrows.size() < 2) { r.label("delslack:fewer-than-2-slack-rows"); continue; }
      std::vector<int> pick;
      for (int k = 0; k < want && !slackrows.empty(); k++) {
        int posi = (int)(o.i[2 + k] % (long)slackrows.size());
        pick.push_back(slackrows[posi]);
        slackrows.erase(slackrows.begin() + posi);
      }
      switch ((int)o.i[0] % 4) {
      case 1: std::sort(pick.begin(), pick.end(), std::greater<int>()); break;
      case 2: std::sort(pick.begin(), pick.end()); break;
      case 3: std::rotate(pick.begin(), pick.begin() + 1, pick.end()); break;
      default: break;
      }
      int variant = (int)o.i[1] % 5;
      if (variant == 1 || variant == 3) variant = 0;     // the single-row forms cannot take a list
      Op del("delrows");
      del.I(variant);
      for (int x : pick) del.I(x);
      Model before = m;
      if (!model_apply(m, del, nullptr)) { r.verdict = DISCARD; break; }
      int rc = sut_apply(p, del, before);
      if (rc != 0) { r.fail("valid-edit-rejected:delslack", strprintf("deleting slack rows returned %d: ", rc) + del.str()); break; }
      r.label(std::string("delslack:done:") + (pick[0] == *std::min_element(pick.begin(), pick.end()) ? "first-is-min" : "first-not-min"));
      edited_since_solve = true;
      last_edit = "delslack";
      last_optimal = false;
      continue;
    }
    if (o.k == "norms") {
      // the basis / row-norm side channel: none of these calls may change what the next solve answers
      int k = o.i.empty() ? 0 : (int)o.i[0] % 5, n = mpq_QSget_colcount(p), mm = mpq_QSget_rowcount(p), rc = 0;
      std::string cs((size_t)n + 1, '?'), rs((size_t)mm + 1, '?');
      QArr norms(mm + 1);
      switch (k) {
      case 0:   // get basis + norms, load them straight back
        rc = mpq_QSget_basis_and_row_norms_array(p, &cs[0], &rs[0], norms.v);
        if (rc == 0) { rc = mpq_QSload_basis_and_row_norms_array(p, &cs[0], &rs[0], norms.v); r.label(rc ? "norms:load-back-rejected" : "norms:get+load"); if (rc) r.fail("norms:own-basis-and-norms-rejected", "QSload_basis_and_row_norms_array rejects what QSget_basis_and_row_norms_array returned"); }
        else r.label("norms:get-refused");
        break;
      case 1: rc = mpq_QScompute_row_norms(p); r.label(rc ? "norms:compute-refused" : "norms:compute"); break;
      case 2: rc = mpq_QStest_row_norms(p); r.label("norms:test"); break;
      case 3: {   // basis object out and in again
        QSbasis *Bo = mpq_QSget_basis(p);
        if (Bo) { rc = mpq_QSload_basis(p, Bo); mpq_QSfree_basis(Bo); r.label(rc ? "norms:own-basis-object-rejected" : "norms:basis-object-roundtrip"); if (rc) r.fail("norms:own-basis-object-rejected", "QSload_basis rejects the object QSget_basis returned"); }
        else r.label("norms:no-basis");
        break;
      }
      default: {  // basis arrays with all-one norms (valid: any positive weights are admissible starting norms)
        rc = mpq_QSget_basis_array(p, &cs[0], &rs[0]);
        if (rc == 0) { for (int i = 0; i < mm; i++) norms.set(i, Q(1)); rc = mpq_QSload_basis_and_row_norms_array(p, &cs[0], &rs[0], norms.v); r.label(rc ? "norms:unit-norms-rejected" : "norms:unit-norms-loaded"); }
        break;
      }
      }
      if (r.verdict != PASS) break;
      if (k == 0 || k >= 3) last_optimal = false;     // a basis was (re)loaded
      continue;
    }
    if (o.k == "loadbasis") {
      if (o.s.size() < 2 || (int)o.s[0].size() != m.n() || (int)o.s[1].size() != m.m()) continue;
      int rc;
      if (!o.i.empty() && o.i[0] == 1) {
        std::string cs = o.s[0], rs = o.s[1];
        rc = mpq_QSload_basis_array(p, &cs[0], &rs[0]);
      } else {
        QSbasis *B = make_basis(o.s[0], o.s[1]);
        rc = mpq_QSload_basis(p, B);
        mpq_QSfree_basis(B);
      }
      r.label(rc ? "loadbasis:rejected" : "loadbasis:ok");
      if (rc == 0) last_optimal = false;
      continue;
    }
    if (o.k == "copy") {
      mpq_QSprob q = mpq_QScopy_prob(p, "copy");
      if (!q) { r.fail("copy-failed", "QScopy_prob returned NULL"); break; }
      if (!o.i.empty() && o.i[0] == 1) { mpq_QSfree_prob(q); r.label("copy:keep-original"); }
      else { mpq_QSfree_prob(p); p = q; r.label("copy:continue-on-copy"); solved_once = false; last_optimal = false; last_solve_optimal = false; }   // (the copy inherits pricing rules and limits)
      continue;
    }
    // edit
    Model before = m;
    if (!model_apply(m, o, nullptr)) { r.verdict = DISCARD; break; }
    int rc = sut_apply(p, o, before);
    if (rc != 0) { r.fail("valid-edit-rejected:" + o.k, strprintf("valid edit returned %d: ", rc) + o.str() + "\nlog: " + g_logbuf.substr(0, 400)); break; }
    edited_since_solve = true;
    last_edit = o.k;
    last_optimal = false;
  }
  mpq_QSfree_prob(p);
  r.nontrivial = warm_resolve;
  r.sample = c.str().substr(0, 2500);
}

void register_c05() { register_property({"C05", "", c05_gen, c05_run, 4, 240, false}); }

}  // namespace qsx

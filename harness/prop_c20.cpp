// C20 -- with a log handler installed the library writes nothing to stdout or stderr
#include "qsx.hpp"
#include "qsx_ops.hpp"
#include <sys/mman.h>
#include <sys/stat.h>
#include <unistd.h>

namespace qsx {

void gen_history(Tape &t, Case &c, int maxlen, bool allow_copy, int solve_weight);
int do_bad_call(mpq_QSprob p, const Model &m, int fn, int bnd, int pos, std::string &desc);
int c07_nfuncs();
QSbasis *make_basis(const std::string &cstat, const std::string &rstat);

static void c20_gen(Tape &t, Case &c) {
  Case h;
  gen_history(t, h, 10, true, 3);
  // sprinkle failing calls, file I/O on missing / valid paths and verbose solves into the history
  for (auto &o : h.ops) {
    if (o.k == "solve" && t.chance(1, 4)) {
      // a finite objective limit makes the simplex stop (and talk) on paths no other history reaches; the limit is a
      // small number either side of zero, which the objective of these LPs crosses in a fair share of the solves
      SolveCfg cfg = SolveCfg::from_op(o);
      cfg.objlim_kind = 1 + (int)t.below(2);
      cfg.objlim = Q((long)t.below(41) - 20) * (t.coin() ? Q(1) : Q(1, 3));
      cfg.objlim.canonicalize();
      Op so = cfg.op();
      so.k = "solve";
      c.ops.push_back(so);
    } else
    c.ops.push_back(o);
    if (o.k == "prob" || o.k == "col" || o.k == "row" || o.k == "route") continue;
    if (t.chance(1, 3)) c.ops.push_back(Op("bad").I(t.below((uint32_t)c07_nfuncs())).I(t.below(6)).I(t.below(3)));
    if (t.chance(1, 4)) c.ops.push_back(Op("io").I(t.below(13)).I(t.below(1000)));
    if (t.chance(1, 5)) c.ops.push_back(Op("display").I(t.below(4)));
  }
}

struct Capture {
  int fd[2] = {-1, -1};
  int saved[2] = {-1, -1};
  bool start() {
    for (int k = 0; k < 2; k++) {
      struct stat st;
      // stderr of the child already is a private regular file that the parent reads after a
      // sanitizer abort: keep it (so reports stay visible) and just watch its size
      if (k == 1 && fstat(2, &st) == 0 && S_ISREG(st.st_mode) && st.st_size == 0) { fd[k] = dup(2); continue; }
      fd[k] = memfd_create(k ? "qsx_stderr" : "qsx_stdout", 0);
      if (fd[k] < 0) return false;
      saved[k] = dup(k + 1);
      fflush(k ? stderr : stdout);
      dup2(fd[k], k + 1);
    }
    return true;
  }
  // bytes written so far to stdout / stderr
  long size(int k) {
    fflush(k ? stderr : stdout);
    struct stat st;
    if (fstat(fd[k], &st) != 0) return 0;
    return (long)st.st_size;
  }
  std::string content(int k) {
    char buf[600];
    ssize_t n = pread(fd[k], buf, sizeof buf - 1, 0);
    if (n < 0) n = 0;
    buf[n] = 0;
    return buf;
  }
  void stop() {
    for (int k = 0; k < 2; k++) { fflush(k ? stderr : stdout); if (saved[k] >= 0) dup2(saved[k], k + 1); }
  }
};

static void c20_run(const Case &c, Result &r) {
  size_t pos = 0;
  Model m;
  if (!model_from_ops(c.ops, pos, m)) { r.verdict = DISCARD; return; }
  int route = 0;
  if (pos < c.ops.size() && c.ops[pos].k == "route") route = (int)c.ops[pos++].i[0];
  Capture cap;
  if (!cap.start()) { r.verdict = INCONCLUSIVE; r.msg = "memfd_create failed"; return; }
  std::string why;
  long handler_calls0 = g_logcalls;
  mpq_QSprob p = sut_build(m, route, &why);
  bool failing_call_seen = false;
  auto check = [&](const std::string &what) {
    for (int k = 0; k < 2; k++) {
      long sz = cap.size(k);
      if (sz > 0) {
        std::string text = cap.content(k);
        cap.stop();
        std::string first = text.substr(0, text.find('\n'));
        r.fail(std::string(k ? "stderr:" : "stdout:") + what, strprintf("%ld byte(s) written to %s by %s: ", sz, k ? "stderr" : "stdout", what.c_str()) + text.substr(0, 400));
        return false;
      }
    }
    return true;
  };
  if (!p) { cap.stop(); r.fail("build:" + why, why); return; }
  if (!check("build")) { mpq_QSfree_prob(p); return; }
  for (; pos < c.ops.size() && r.verdict == PASS; pos++) {
    const Op &o = c.ops[pos];
    std::string what = o.k;
    if (o.k == "display") { mpq_QSset_param(p, QS_PARAM_SIMPLEX_DISPLAY, (int)o.i[0] & 3); r.label("display" + std::to_string(o.i[0] & 3)); what = "QSset_param"; }
    else if (o.k == "solve") {
      SolveCfg cfg = SolveCfg::from_op(o);
      cfg.display = -1;                    // keep whatever the display op selected
      if (cfg.entry != 0) cfg.itlim = 500;
      Solution s;
      QSexact_set_precision(128);
      sut_solve(p, cfg, nullptr, s, nullptr, nullptr);
      QSexact_set_precision(128);
      what = cfg.entry == 0 ? "QSexact_solver" : (cfg.entry == 1 ? "QSopt_primal" : "QSopt_dual");
      int disp = 0;
      mpq_QSget_param(p, QS_PARAM_SIMPLEX_DISPLAY, &disp);
      what += "/display" + std::to_string(disp);
      if (cfg.objlim_kind) r.label("solve:objective-limit");
      if (s.status == QS_LP_OBJ_LIMIT) r.label("status:objective-limit-reached");
      if (s.rval) failing_call_seen = true;
      r.label("call:" + what);
    } else if (o.k == "probe") {
      Solution s;
      if (!sut_fetch_solution(p, s, &why)) failing_call_seen = true;
      AccessorProbe ap;
      sut_probe_accessors(p, ap);       // each accessor on its own: the combined fetch stops at the first refusal
      if (ap.nfail) { failing_call_seen = true; r.label("probe:some-accessor-refused"); }
      what = "solution accessors";
    } else if (o.k == "loadbasis") {
      if (o.s.size() >= 2 && (int)o.s[0].size() == m.n() && (int)o.s[1].size() == m.m()) {
        QSbasis *B = make_basis(o.s[0], o.s[1]);
        mpq_QSload_basis(p, B);
        // verdict functions on the same basis
        char res = 0;
        Q dv;
        QSexact_basis_optimalstatus(p, B, &res, 0);
        QSexact_basis_dualstatus(p, B, &res, qp(dv), 0);
        mpq_QSfree_basis(B);
        QSexact_set_precision(128);
      }
      what = "QSload_basis+verdicts";
    } else if (o.k == "copy") {
      mpq_QSprob q = mpq_QScopy_prob(p, "copy");
      if (q) mpq_QSfree_prob(q);
      what = "QScopy_prob";
    } else if (o.k == "bad") {
      if (m.n() >= 2 && m.m() >= 2) {
        bool named = true;
        for (auto &cc : m.cols) if (cc.name.empty()) named = false;
        for (auto &rr : m.rows) if (rr.name.empty()) named = false;
        if (named) {
          std::string desc;
          int rc = do_bad_call(p, m, (int)o.i[0] % c07_nfuncs(), (int)o.i[1] % 6, (int)o.i[2], desc);
          what = "rejected call " + desc.substr(0, desc.find(' '));
          if (rc != 0 && rc != -9999) failing_call_seen = true;
          r.label("call:" + what);
          // a call that the library accepted may have changed the problem: resynchronise the model
          Model d;
          if (sut_dump(p, d, &why, false)) m = d;
        }
      }
    } else if (o.k == "io") {
      int k = (int)o.i[0] % 13;
      long salt = o.i.size() > 1 ? o.i[1] : 0;
      switch (k) {
      case 9: {   // a missing file whose path is several hundred characters long (short components): long message
        std::string path;
        for (int d = 0; d < 120 + (int)(salt % 100); d++) path += "dir/";
        path += "missing_file.lp";
        mpq_QSprob q = mpq_QSread_prob(path.c_str(), "LP");
        if (q) mpq_QSfree_prob(q);
        what = "QSread_prob(missing, long path)"; failing_call_seen = true; break;
      }
      case 10: case 11: {   // a malformed file whose offending line is more than a kilobyte long
        bool mps = k == 11;
        std::string line, text;
        int terms = 100 + (int)(salt % 80);
        if (!mps) {
          for (int j = 0; j < terms; j++) line += strprintf(" + %d xvariable%d", j + 1, j);
          text = "Minimize\n obj: xvariable0\nSubject To\n c1:" + line + " >= >= 3\nEnd\n";
        } else {
          for (int j = 0; j < terms; j++) line += strprintf("  field%d", j);
          text = "NAME p\nROWS\n N obj\n G c1\nCOLUMNS\n x obj 1 c1 1\n x" + line + "\nRHS\nENDATA\n";
        }
        write_file(mps ? "c20_long.mps" : "c20_long.lp", text);
        mpq_QSprob q = mpq_QSread_prob(mps ? "c20_long.mps" : "c20_long.lp", mps ? "MPS" : "LP");
        if (q) mpq_QSfree_prob(q);
        what = mps ? "QSread_prob(malformed MPS, long line)" : "QSread_prob(malformed LP, long line)"; failing_call_seen = true; break;
      }
      case 12: {   // the current problem written, damaged at a token boundary, and read again: varied diagnostics
        mpq_QSwrite_prob(p, "c20_dmg.lp", "LP");
        bool ok = false;
        std::string text = read_file("c20_dmg.lp", &ok);
        if (ok && text.size() > 10) {
          size_t at = (size_t)(salt * 7919) % text.size();
          while (at < text.size() && !isspace((unsigned char)text[at])) at++;
          static const char *poison[] = {" @@ ", " >= <= ", " 1/0 ", "\nBounds\n zzz free\n", " : : "};
          text = text.substr(0, at) + poison[salt % 5] + text.substr(at);
          write_file("c20_dmg.lp", text);
          mpq_QSprob q = mpq_QSread_prob("c20_dmg.lp", "LP");
          if (q) mpq_QSfree_prob(q);
        }
        what = "QSread_prob(damaged own output)"; failing_call_seen = true; break;
      }
      case 0: { mpq_QSprob q = mpq_QSread_prob("no_such_file.lp", "LP"); if (q) mpq_QSfree_prob(q); what = "QSread_prob(missing,LP)"; failing_call_seen = true; break; }
      case 1: { mpq_QSprob q = mpq_QSread_prob("no_such_file.mps", "MPS"); if (q) mpq_QSfree_prob(q); what = "QSread_prob(missing,MPS)"; failing_call_seen = true; break; }
      case 2: { mpq_QSprob q = mpq_QSread_prob("no_such_file.lp.gz", "LP"); if (q) mpq_QSfree_prob(q); what = "QSread_prob(missing,.gz)"; failing_call_seen = true; break; }
      case 3: { mpq_QSwrite_prob(p, "c20_out.lp", "LP"); what = "QSwrite_prob(LP)"; break; }
      case 4: { mpq_QSwrite_prob(p, "c20_out.mps", "MPS"); what = "QSwrite_prob(MPS)"; break; }
      case 5: {
        if (salt % 2) { mpq_QSwrite_prob(p, "c20_out.xyz", "XYZ"); what = "QSwrite_prob(bad type)"; }
        else { mpq_QSwrite_prob(p, "no_such_directory/out.lp", salt % 4 ? "LP" : "MPS"); mpq_QSwrite_basis(p, nullptr, "no_such_directory/out.bas"); what = "QSwrite_prob(unopenable path)"; }
        failing_call_seen = true; break;
      }
      case 6: { QSbasis *B = mpq_QSread_basis(p, "no_such_file.bas"); if (B) mpq_QSfree_basis(B); what = "QSread_basis(missing)"; failing_call_seen = true; break; }
      case 7: { mpq_QSwrite_basis(p, nullptr, "c20_out.bas"); what = "QSwrite_basis(own)"; break; }
      default: {
        write_file("c20_bad.lp", "MINIMIZE\n obj: x + + y\nSUBJECT TO\n c1: x - >= 2 y\n c2 x : 3\nBOUNDS\n x free y\nEND\n");
        mpq_QSprob q = mpq_QSread_prob("c20_bad.lp", "LP");
        if (q) mpq_QSfree_prob(q);
        what = "QSread_prob(malformed LP)";
        failing_call_seen = true;
      }
      }
      r.label("call:" + what);
    } else {
      Model before = m;
      if (!model_apply(m, o, nullptr)) { m = before; continue; }   // indices may be stale after an accepted bad call
      sut_apply(p, o, before);
      what = "edit " + o.k;
    }
    if (!check(what)) break;
  }
  mpq_QSfree_prob(p);
  if (r.verdict == PASS) check("QSfree_prob");
  cap.stop();
  long calls = g_logcalls - handler_calls0;
  if (r.verdict == PASS && failing_call_seen && calls == 0) r.label("failing-call-without-message");
  if (g_logbuf.find("<NULL>") != std::string::npos) r.fail("handler-got-null", "the log handler was invoked with a NULL message");
  r.nontrivial = failing_call_seen;
  r.sample = c.str().substr(0, 2000);
}

void register_c20() { register_property({"C20", "", c20_gen, c20_run, 4, 240, false}); }

}  // namespace qsx

// qsx_io.cpp -- file I/O through the library, equivalence of re-read problems,
// independent LP / MPS emitters
#include "qsx_io.hpp"
#include <unistd.h>

namespace qsx {

// ---------------------------------------------------------------- reading
struct TextSrc { const std::string *text; size_t pos; long lines; };
static char *text_gets(char *s, int size, void *src) {
  TextSrc *t = (TextSrc *)src;
  if (size <= 0 || t->pos >= t->text->size()) return nullptr;
  int k = 0;
  while (k < size - 1 && t->pos < t->text->size()) {
    char c = (*t->text)[t->pos++];
    s[k++] = c;
    if (c == '\n') break;
  }
  s[k] = 0;
  t->lines++;
  return s;
}
struct ErrSink { std::vector<std::string> *msgs; int nerr, nwarn; };
static int add_error(void *dest, const mpq_qsformat_error *e) {
  ErrSink *s = (ErrSink *)dest;
  int tp = mpq_QSerror_get_type((mpq_QSformat_error)e);
  const char *d = mpq_QSerror_get_desc((mpq_QSformat_error)e);
  if (tp == QS_DATA_ERROR || tp == QS_MPS_FORMAT_ERROR || tp == QS_LP_FORMAT_ERROR) s->nerr++; else s->nwarn++;
  if (s->msgs->size() < 50) s->msgs->push_back(std::string(mpq_QSformat_error_type_string(tp)) + ": " + (d ? d : "<NULL>"));
  return 0;
}

void sut_read_text(const std::string &text, const char *type, bool use_collector, ReadResult &out) {
  out = ReadResult();
  TextSrc src{&text, 0, 0};
  ErrSink sink{&out.errors, 0, 0};
  mpq_QSline_reader rd = mpq_QSline_reader_new((void *)text_gets, &src);
  mpq_QSerror_collector col = nullptr;
  if (use_collector) {
    col = mpq_QSerror_collector_new((void *)add_error, &sink);
    mpq_QSline_reader_set_error_collector(rd, col);
  }
  out.p = mpq_QSget_prob(rd, "textprob", type);
  mpq_QSline_reader_free(rd);
  if (col) mpq_QSerror_collector_free(col);
  out.nerrors = sink.nerr;
  out.nwarnings = sink.nwarn;
  out.lines_consumed = src.lines;
}

mpq_QSprob sut_read_file(const std::string &path, const char *type) { return mpq_QSread_prob(path.c_str(), type); }

bool sut_write_file(mpq_QSprob p, const char *type, int target, std::string &path_out, std::string *why) {
  static int counter = 0;
  std::string ext = (type[0] == 'L' || type[0] == 'l') ? ".lp" : ".mps";
  std::string base = "w" + std::to_string(counter++) + ext;
  int rc;
  if (target == 1) base += ".gz";
  if (target == 2) base += ".bz2";
  if (target == 3) {
    FILE *f = fopen(base.c_str(), "w");
    if (!f) { if (why) *why = "fopen failed"; return false; }
    rc = mpq_QSwrite_prob_file(p, f, type);
    fclose(f);
  } else rc = mpq_QSwrite_prob(p, base.c_str(), type);
  path_out = base;
  if (rc) { if (why) *why = strprintf("QSwrite_prob returned %d", rc); return false; }
  return true;
}

std::map<std::string, std::vector<std::string>> rename_notices(size_t logmark) {
  std::map<std::string, std::vector<std::string>> r;
  const std::string &L = g_logbuf;
  size_t p = logmark;
  const std::string key = "\" is not a valid name in";
  while ((p = L.find(key, p)) != std::string::npos) {
    size_t q0 = L.rfind('"', p - 1);
    // the old name is between the quote before p and p
    size_t start = L.rfind(": \"", p);
    if (start == std::string::npos || start < logmark) { p += key.size(); continue; }
    std::string oldn = L.substr(start + 3, p - (start + 3));
    size_t to = L.find("renaiming to \"", p);
    if (to == std::string::npos) break;
    size_t e = L.find("\".", to + 14);
    if (e == std::string::npos) break;
    std::string newn = L.substr(to + 14, e - (to + 14));
    r[oldn].push_back(newn);
    (void)q0;
    p = e;
  }
  return r;
}

// ---------------------------------------------------------------- equivalence
static void row_iv(const Row &r, Q &lo, Q &up) {
  switch (r.sense) {
  case 'L': lo = NINF(); up = r.rhs; break;
  case 'G': lo = r.rhs; up = PINF(); break;
  case 'E': lo = up = r.rhs; break;
  default: lo = r.rhs; up = r.rhs + r.range;
  }
}

bool model_equiv(const Model &orig, const Model &got, const EquivOpts &o, std::string *why) {
  auto W = [&](const std::string &s) { if (why) *why = s; return false; };
  if (orig.objsense != got.objsense) return W(strprintf("objective sense %d vs %d", orig.objsense, got.objsense));
  // columns by name
  std::map<std::string, int> gcol;
  for (int j = 0; j < got.n(); j++) {
    if (gcol.count(got.cols[j].name)) return W("duplicate column name '" + got.cols[j].name + "' in the re-read problem");
    gcol[got.cols[j].name] = j;
  }
  if (got.n() != orig.n()) return W(strprintf("%d columns vs %d", orig.n(), got.n()));
  std::vector<int> cmap(orig.n(), -1);   // orig col -> got col
  for (int j = 0; j < orig.n(); j++) {
    std::string nm = orig.cols[j].name;
    auto rn = o.col_renames.find(nm);
    if (rn != o.col_renames.end() && !gcol.count(nm)) {
      // the notices are keyed by the old name only (a row and a column may share it, and a repaired name may equal
      // the name of another entry): take the candidate that carries this column's data, else the first that exists
      std::string first;
      bool chosen = false;
      for (auto &cand : rn->second) {
        auto ic = gcol.find(cand);
        if (ic == gcol.end()) continue;
        if (first.empty()) first = cand;
        const Col &a = orig.cols[j], &b = got.cols[ic->second];
        if (a.obj == b.obj && a.lo == b.lo && a.up == b.up && a.isint == b.isint) { nm = cand; chosen = true; break; }
      }
      if (!chosen && !first.empty()) nm = first;
    }
    auto it = gcol.find(nm);
    if (it == gcol.end()) return W("column '" + orig.cols[j].name + "' (written as '" + nm + "') is missing");
    cmap[j] = it->second;
    const Col &a = orig.cols[j], &b = got.cols[it->second];
    if (a.obj != b.obj) return W("column '" + nm + "': objective " + qstr(a.obj) + " vs " + qstr(b.obj));
    if (a.lo != b.lo) return W("column '" + nm + "': lower bound " + qstr(a.lo) + " vs " + qstr(b.lo));
    if (a.up != b.up) return W("column '" + nm + "': upper bound " + qstr(a.up) + " vs " + qstr(b.up));
    if (a.isint != b.isint) return W("column '" + nm + "': integrality " + std::to_string(a.isint) + " vs " + std::to_string(b.isint));
  }
  // rows: translate original coefficient maps into the re-read column numbering
  std::vector<bool> used(got.m(), false);
  auto same_coefs = [&](const Row &a, const Row &b) {
    if (a.a.size() != b.a.size()) return false;
    for (auto &kv : a.a) {
      auto it = b.a.find(cmap[kv.first]);
      if (it == b.a.end() || it->second != kv.second) return false;
    }
    return true;
  };
  auto row_matches = [&](const Row &a, const Row &b) {
    if (!same_coefs(a, b)) return false;
    if (o.by_interval) {
      Q l1, u1, l2, u2;
      row_iv(a, l1, u1); row_iv(b, l2, u2);
      return l1 == l2 && u1 == u2;
    }
    // a ranged row of width zero and an equation are the same row constraint
    bool aeq = a.sense == 'E' || (a.sense == 'R' && a.range == 0), beq = b.sense == 'E' || (b.sense == 'R' && b.range == 0);
    if (aeq && beq) return a.rhs == b.rhs;
    if (a.sense != b.sense || a.rhs != b.rhs) return false;
    if (a.sense == 'R' && a.range != b.range) return false;
    return true;
  };
  for (int i = 0; i < orig.m(); i++) {
    const Row &a = orig.rows[i];
    if (a.a.empty() && o.drop_empty_rows) {
      // may be dropped; if it is still there it must match
      bool kept = false;
      for (int k = 0; k < got.m(); k++) if (!used[k] && got.rows[k].name == a.name && got.rows[k].a.empty()) { used[k] = true; kept = true; break; }
      (void)kept;
      continue;
    }
    std::string nm = a.name;
    auto rn = o.row_renames.find(nm);
    if (rn != o.row_renames.end()) {
      bool present = false;
      for (int k = 0; k < got.m(); k++) if (got.rows[k].name == nm) present = true;
      if (!present) {
        // prefer the candidate under which this very row is found (a candidate may also be the genuine name of
        // another row, or the new name of the column that shared the old name)
        std::string first;
        bool chosen = false;
        for (auto &cand : rn->second) {
          for (int k = 0; k < got.m() && !chosen; k++) {
            if (used[k] || got.rows[k].name != cand) continue;
            if (first.empty()) first = cand;
            if (row_matches(a, got.rows[k]) || (a.sense == 'R' && o.allow_range_split && same_coefs(a, got.rows[k]))) { nm = cand; chosen = true; }
          }
          if (chosen) break;
        }
        if (!chosen && !first.empty()) nm = first;
      }
    }
    int hit = -1;
    if (o.match_rows_by_name) {
      for (int k = 0; k < got.m(); k++) if (!used[k] && got.rows[k].name == nm) { hit = k; break; }
      if (hit >= 0 && row_matches(a, got.rows[hit])) { used[hit] = true; continue; }
    } else {
      for (int k = 0; k < got.m(); k++) if (!used[k] && row_matches(a, got.rows[k])) { hit = k; break; }
      if (hit >= 0) { used[hit] = true; continue; }
    }
    if (a.sense == 'R' && o.allow_range_split) {
      // two halves: G(rhs) [carrying the name if matched by name] and L(rhs + range)
      int g = -1, l = -1;
      for (int k = 0; k < got.m(); k++) {
        if (used[k] || !same_coefs(a, got.rows[k])) continue;
        const Row &b = got.rows[k];
        if (g < 0 && b.sense == 'G' && b.rhs == a.rhs && (!o.match_rows_by_name || b.name == nm)) g = k;
        else if (l < 0 && b.sense == 'L' && b.rhs == a.rhs + a.range) l = k;
      }
      if (g >= 0 && l >= 0) { used[g] = used[l] = true; continue; }
      // a zero-width range may legitimately come back as an equation
      if (a.range == 0)
        for (int k = 0; k < got.m(); k++)
          if (!used[k] && same_coefs(a, got.rows[k]) && got.rows[k].sense == 'E' && got.rows[k].rhs == a.rhs && o.by_interval) { used[k] = true; g = l = k; break; }
      if (g >= 0 && l >= 0) continue;
    }
    if (hit >= 0) {
      const Row &b = got.rows[hit];
      return W("row '" + a.name + "' came back different: sense " + std::string(1, a.sense) + "/" + std::string(1, b.sense) + " rhs " + qstr(a.rhs) + "/" +
               qstr(b.rhs) + " range " + qstr(a.range) + "/" + qstr(b.range) + strprintf(" nz %zu/%zu", a.a.size(), b.a.size()));
    }
    return W("row '" + a.name + "' (written as '" + nm + "') is missing from the re-read problem");
  }
  for (int k = 0; k < got.m(); k++)
    if (!used[k]) return W("re-read problem has an extra row '" + got.rows[k].name + "'");
  return true;
}

// ---------------------------------------------------------------- emitters
static const char *kNameFirst = "abcdfghijklmnopqrstuvwxyzABCDFGHIJKLMNOPQRSTUVWXYZ_";   // no e/E (exponent caveat)
static const char *kNameRest = "abcdefghijklmnopqrstuvwxyzABCDEFGHIJKLMNOPQRSTUVWXYZ0123456789_.#$%&!?@~";

static std::string rand_name(Tape &t, int idx, bool row, bool mps) {
  int style = (int)t.below(5);
  std::string s;
  if (style <= 1) s = std::string(row ? "c" : "x") + std::to_string(idx + 1);
  else if (style == 2) s = std::string(row ? "Row" : "Var") + "_" + std::to_string(idx);
  else {
    int len = 1 + (int)t.below(style == 3 ? 6 : 24);
    s += kNameFirst[t.below((uint32_t)strlen(kNameFirst))];
    for (int k = 1; k < len; k++) s += kNameRest[t.below((uint32_t)strlen(kNameRest))];
    s += "_" + std::to_string(idx);   // uniqueness
  }
  (void)mps;
  return s;
}

void gen_file_model(Tape &t, Model &m, bool allow_range, bool allow_int, int maxm, int maxn, int big) {
  m = Model();
  m.name = "prob";
  m.objsense = t.coin() ? -1 : 1;
  int n = 1 + (int)t.below((uint32_t)maxn), mm = 1 + (int)t.below((uint32_t)maxm);
  for (int j = 0; j < n; j++) {
    Col c;
    c.name = rand_name(t, j, false, false);
    c.obj = t.chance(1, 3) ? Q(0) : gen_num(t, big);
    switch (t.below(8)) {
    case 0: case 1: c.lo = 0; c.up = PINF(); break;
    case 2: c.lo = NINF(); c.up = PINF(); break;
    case 3: c.lo = gen_num(t, big); c.up = PINF(); break;
    case 4: c.lo = NINF(); c.up = gen_num(t, big); break;
    case 5: c.lo = c.up = gen_num(t, big); break;
    case 6: c.lo = 0; c.up = abs(gen_nz(t, big)); break;
    default: { Q a = gen_num(t, big), b = gen_num(t, big); c.lo = a < b ? a : b; c.up = a < b ? b : a; }
    }
    if (allow_int && t.chance(1, 5)) c.isint = true;
    m.cols.push_back(c);
  }
  for (int i = 0; i < mm; i++) {
    Row r;
    r.name = rand_name(t, i, true, false);
    r.sense = "LGER"[t.below(allow_range ? 4 : 3)];
    r.rhs = gen_num(t, big);
    r.range = r.sense == 'R' ? (t.chance(1, 5) ? Q(0) : abs(gen_nz(t, big))) : Q(0);
    int k = 1 + (int)t.below((uint32_t)std::min(n, t.chance(1, 6) ? 40 : 5));
    for (int c = 0; c < k; c++) r.a[(int)t.below((uint32_t)n)] = gen_nz(t, big);
    m.rows.push_back(r);
  }
  // every column must occur somewhere (objective or a row)
  for (int j = 0; j < n; j++) {
    bool used = m.cols[j].obj != 0;
    for (auto &r : m.rows) if (r.a.count(j)) used = true;
    if (!used) m.rows[t.below((uint32_t)mm)].a[j] = gen_nz(t, big);
  }
}

// a rational has a finite decimal expansion iff its reduced denominator is 2^a 5^b
static bool decimal_expansion(const Q &v, std::string &digits, int &scale) {
  mpz_class den = v.get_den(), num = v.get_num();
  int a = 0, b = 0;
  mpz_class d = den;
  while (d % 2 == 0) { d /= 2; a++; }
  while (d % 5 == 0) { d /= 5; b++; }
  if (d != 1) return false;
  int k = std::max(a, b);
  if (k > 60) return false;
  mpz_class mult = 1;
  for (int i = 0; i < k - a; i++) mult *= 2;
  for (int i = 0; i < k - b; i++) mult *= 5;
  mpz_class scaled = abs(num) * mult;   // = |v| * 10^k
  digits = scaled.get_str();
  scale = k;
  return true;
}

// unsigned spelling of |v| ; the caller writes the sign
std::string spell_number(Tape &t, const Q &v0, EmitStats &st, bool allow_fraction) {
  Q v = abs(v0);
  std::string digits;
  int scale = 0;
  bool dec = decimal_expansion(v, digits, scale);
  int form = (int)t.below(7);
  if (!dec) {
    if (!allow_fraction) return v.get_str();
    st.features.insert("num:fraction");
    if (form == 1) { st.features.insert("num:fraction-leading-zeros"); return "00" + v.get_num().get_str() + "/" + v.get_den().get_str(); }
    return v.get_str();
  }
  // dec: |v| = digits * 10^-scale
  auto plain = [&]() {
    std::string s = digits;
    if (scale > 0) {
      while ((int)s.size() <= scale) s = "0" + s;
      s.insert(s.size() - scale, ".");
    }
    return s;
  };
  switch (form) {
  case 0: default:
    if (scale == 0) { st.features.insert("num:integer"); return digits; }
    st.features.insert("num:decimal");
    return plain();
  case 1: {
    if (scale == 0) { st.features.insert("num:leading-zeros"); return "000" + digits; }
    std::string s = plain();
    if (s.rfind("0.", 0) == 0) { st.features.insert("num:leading-dot"); return s.substr(1); }   // .25
    st.features.insert("num:decimal");
    return s;
  }
  case 2: {
    if (scale == 0) { st.features.insert("num:trailing-dot"); return digits + "."; }            // 3.
    st.features.insert("num:trailing-zeros");
    return plain() + "00";
  }
  case 3: case 4: {   // exponent form: mantissa * 10^e
    // move the decimal point by 'shift': mostly a few places, sometimes far enough that the exponent
    // has two or three digits (the value is unchanged, only the literal gets long)
    int shift = (int)t.below(9) - 4;
    if (t.chance(1, 4)) shift = (int)t.below(121) - 60;
    else if (t.chance(1, 12)) shift = (int)t.below(621) - 310;
    if (shift >= 20 || shift <= -20) st.features.insert("num:exponent-2plus-digits");
    int sc = scale + shift;                                // mantissa = digits * 10^-sc , exponent = shift
    std::string mant = digits;
    if (sc > 0) { while ((int)mant.size() <= sc) mant = "0" + mant; mant.insert(mant.size() - sc, "."); }
    else for (int k = 0; k < -sc; k++) mant += "0";
    // value = mant * 10^(shift) ... check: digits*10^-sc * 10^shift = digits*10^-(scale)  ok
    const char *e = form == 3 ? "e" : "E";
    std::string ex = shift < 0 ? "-" + std::to_string(-shift) : (t.coin() ? "+" + std::to_string(shift) : std::to_string(shift));
    st.features.insert("num:exponent");
    return mant + e + ex;
  }
  case 5:
    if (allow_fraction && v.get_den() != 1) { st.features.insert("num:fraction"); return v.get_str(); }
    st.features.insert(scale == 0 ? "num:integer" : "num:decimal");
    return plain();
  case 6:
    if (allow_fraction) {   // unreduced fraction
      long k = 2 + (long)t.below(9);
      mpz_class nn = v.get_num() * k, dd = v.get_den() * k;
      st.features.insert("num:unreduced-fraction");
      return nn.get_str() + "/" + dd.get_str();
    }
    st.features.insert(scale == 0 ? "num:integer" : "num:decimal");
    return plain();
  }
}

static std::string casevar(Tape &t, const std::string &kw, EmitStats &st) {
  int f = (int)t.below(4);
  std::string s = kw;
  if (f == 1) { for (auto &c : s) c = (char)tolower(c); st.features.insert("kw:lowercase"); }
  else if (f == 2) { for (size_t k = 1; k < s.size(); k++) s[k] = (char)tolower(s[k]); st.features.insert("kw:capitalised"); }
  else if (f == 3) { for (size_t k = 0; k < s.size(); k += 2) s[k] = (char)tolower(s[k]); st.features.insert("kw:mixedcase"); }
  return s;
}

struct LpWriter {
  Tape &t;
  EmitStats &st;
  std::string out, line;
  bool allow_colon_comments;
  LpWriter(Tape &tt, EmitStats &s) : t(tt), st(s), allow_colon_comments(false) { line = " "; }
  void keyword_line(const std::string &kw) { flush(); out += kw + "\n"; line = " "; }
  void tok(const std::string &s) {
    // optional line break / comment / blank line between any two tokens
    if (line.size() > 1 && t.chance(1, 14)) { newline(); st.features.insert("layout:linebreak-inside-expression"); }
    if (line.size() + s.size() > 200) newline();
    line += s;
    line += t.chance(1, 8) ? "   " : " ";
  }
  void newline() {
    if (t.chance(1, 10)) {
      static const char *cm[] = {"\\ a comment", "\\ MAX min subject to end", "\\* old style *\\", "\\ 3 x + 4 y <= 7", "\\ note: with a colon", "\\"};
      int k = (int)t.below(allow_colon_comments ? 6 : 4);
      if (k == 4 && !allow_colon_comments) k = 0;
      line += cm[k];
      st.features.insert(k == 4 ? "comment:with-colon" : "comment");
    }
    out += line + "\n";
    if (t.chance(1, 16)) { out += "\n"; st.features.insert("layout:blank-line"); }
    line = " ";
  }
  void flush() { if (line.find_first_not_of(' ') != std::string::npos) newline(); line = " "; }
};

// one linear expression; returns false if nothing was written
static void emit_expr(LpWriter &w, const Model &m, const std::map<int, Q> &a) {
  bool first = true;
  // random order of the terms
  std::vector<std::pair<int, Q>> terms(a.begin(), a.end());
  for (int k = (int)terms.size() - 1; k > 0; k--) std::swap(terms[k], terms[w.t.below((uint32_t)k + 1)]);
  std::vector<std::pair<int, Q>> out;
  for (auto &kv : terms) {
    // a repeated term: coefficients add up
    if (w.t.chance(1, 9)) {
      Q part = gen_num(w.t, 1);
      if (part != 0 && part != kv.second) {
        out.push_back({kv.first, part});
        out.push_back({kv.first, kv.second - part});
        w.st.features.insert("expr:repeated-term");
        continue;
      }
    }
    out.push_back(kv);
  }
  for (auto &kv : out) {
    const Q &c = kv.second;
    bool neg = c < 0;
    std::string sign = neg ? "-" : (first ? (w.t.chance(1, 4) ? "+" : "") : "+");
    bool one = abs(c) == 1;
    std::string num;
    if (one && !w.t.chance(1, 4)) w.st.features.insert("expr:omitted-one");
    else num = spell_number(w.t, c, w.st, true);
    // sign glued to the number or separated by blanks
    if (!sign.empty()) {
      if (w.t.coin()) { w.tok(sign); if (!num.empty()) w.tok(num); w.st.features.insert("expr:sign-separated"); }
      else w.tok(sign + num);
    } else if (!num.empty()) w.tok(num);
    w.tok(m.cols[kv.first].name);
    first = false;
  }
}

std::string emit_lp(Tape &t, const Model &m, EmitStats &st) {
  LpWriter w(t, st);
  w.allow_colon_comments = t.chance(1, 6);
  if (t.chance(1, 3)) { w.keyword_line(casevar(t, t.coin() ? "PROBLEM" : "PROB", st)); w.tok(m.name); w.flush(); st.features.insert("section:problem"); }
  static const char *mins[] = {"MIN", "MINIMUM", "MINIMIZE"}, *maxs[] = {"MAX", "MAXIMUM", "MAXIMIZE"};
  w.keyword_line(casevar(t, m.objsense >= 0 ? mins[t.below(3)] : maxs[t.below(3)], st));
  std::map<int, Q> obj;
  for (int j = 0; j < m.n(); j++) if (m.cols[j].obj != 0) obj[j] = m.cols[j].obj;
  if (t.chance(2, 3)) { w.tok("obj:"); st.features.insert("obj:named"); }
  if (obj.empty()) { w.tok("0"); w.tok(m.cols[0].name); st.features.insert("obj:all-zero"); }
  else emit_expr(w, m, obj);
  w.flush();
  w.keyword_line(t.coin() ? casevar(t, "SUBJECT TO", st) : casevar(t, "ST", st));
  for (int i = 0; i < m.m(); i++) {
    const Row &r = m.rows[i];
    w.flush();
    if (!r.name.empty()) w.tok(r.name + ":"); else st.features.insert("row:unnamed");
    emit_expr(w, m, r.a);
    static const char *le[] = {"<=", "<", "=<"}, *ge[] = {">=", ">", "=>"};
    std::string s = r.sense == 'L' ? le[t.below(3)] : (r.sense == 'G' ? ge[t.below(3)] : "=");
    st.features.insert("sense:" + s);
    w.tok(s);
    std::string num = spell_number(t, r.rhs, st, true);
    w.tok((r.rhs < 0 ? "-" : (t.chance(1, 5) ? "+" : "")) + num);
  }
  w.flush();
  // bounds: only what differs from the default [0, inf), each column at most once
  bool header = false;
  auto hdr = [&]() { if (!header) { w.keyword_line(casevar(t, t.coin() ? "BOUNDS" : "BOUND", st)); header = true; } };
  auto num = [&](const Q &v) { return std::string(v < 0 ? "-" : "") + spell_number(t, v, st, true); };
  auto ninf = [&]() { st.features.insert("bound:-inf"); return std::string(t.coin() ? "-inf" : "-infinity"); };
  auto pinf = [&]() { st.features.insert("bound:+inf"); return std::string(t.coin() ? "+inf" : (t.coin() ? "inf" : "+infinity")); };
  for (int j = 0; j < m.n(); j++) {
    const Col &c = m.cols[j];
    bool dl = c.lo == 0, du = is_pinf(c.up);
    if (c.isint && dl && du) continue;                    // handled below (explicit bounds for integers)
    if (dl && du) { if (t.chance(1, 10)) { hdr(); w.flush(); w.tok("0"); w.tok("<="); w.tok(c.name); st.features.insert("bound:explicit-default"); } continue; }
    hdr();
    w.flush();
    if (is_ninf(c.lo) && du) { w.tok(c.name); w.tok(casevar(t, "FREE", st)); st.features.insert("bound:free"); continue; }
    if (c.lo == c.up && t.coin()) { w.tok(c.name); w.tok("="); w.tok(num(c.lo)); st.features.insert("bound:fixed"); continue; }
    if (du) { w.tok(num(c.lo)); w.tok("<="); w.tok(c.name); st.features.insert("bound:lower-only"); continue; }
    if (is_ninf(c.lo)) {
      if (c.up < 0 && t.coin()) { w.tok(c.name); w.tok("<="); w.tok(num(c.up)); st.features.insert("bound:negative-upper-implies-free-below"); continue; }
      w.tok(ninf()); w.tok("<="); w.tok(c.name); w.tok("<="); w.tok(num(c.up));
      st.features.insert("bound:upper-with--inf");
      continue;
    }
    if (dl && c.up >= 0 && t.coin()) { w.tok(c.name); w.tok("<="); w.tok(num(c.up)); st.features.insert("bound:upper-only"); continue; }
    w.tok(num(c.lo)); w.tok("<="); w.tok(c.name); w.tok("<="); w.tok(num(c.up));
    st.features.insert("bound:boxed");
    (void)pinf;
  }
  // integer columns with default bounds: spell the bounds out (0 <= x <= +inf) so that no implicit rule is needed
  for (int j = 0; j < m.n(); j++) {
    const Col &c = m.cols[j];
    if (c.isint && c.lo == 0 && is_pinf(c.up)) { hdr(); w.flush(); w.tok("0"); w.tok("<="); w.tok(c.name); w.tok("<="); w.tok(pinf()); st.features.insert("bound:integer-explicit"); }
  }
  w.flush();
  bool anyint = false;
  for (auto &c : m.cols) anyint |= c.isint;
  if (anyint) {
    w.keyword_line(casevar(t, "INTEGER", st));
    for (auto &c : m.cols) if (c.isint) w.tok(c.name);
    w.flush();
    st.features.insert("section:integer");
  }
  w.keyword_line(casevar(t, "END", st));
  return w.out;
}

std::string emit_mps(Tape &t, const Model &m, EmitStats &st) {
  std::string o;
  auto sep = [&]() { return std::string(t.chance(1, 6) ? "\t" : (t.chance(1, 4) ? "      " : "  ")); };
  auto num = [&](const Q &v) { return std::string(v < 0 ? "-" : "") + spell_number(t, v, st, true); };
  auto comment = [&]() { if (t.chance(1, 12)) { o += "* a comment line with ROWS COLUMNS keywords\n"; st.features.insert("comment"); } };
  o += "NAME" + sep() + m.name + "\n";
  bool objsense_section = m.objsense < 0 || t.chance(1, 3);
  if (objsense_section) {
    // the six spellings per direction that the reader documents (mps.c, read_mps_objsense)
    static const char *mx[] = {"MAX", "Max", "max", "MAXIMIZE", "Maximize", "maximize"}, *mn[] = {"MIN", "Min", "min", "MINIMIZE", "Minimize", "minimize"};
    o += "OBJSENSE\n " + std::string(m.objsense < 0 ? mx[t.below(6)] : mn[t.below(6)]) + "\n";
    st.features.insert("section:objsense");
  }
  std::string objname = t.chance(1, 3) ? "COST" : "obj";
  if (t.chance(1, 3)) { o += "OBJNAME\n " + objname + "\n"; st.features.insert("section:objname"); }
  comment();
  // decoys: a second N row and columns that occur in that row only.  The reader keeps the first N row (or the
  // OBJNAME one) as objective, ignores other N rows and drops -- with a warning -- columns used nowhere else,
  // so the text denotes the same problem; every later column shifts down by one in the reader's tables.
  std::string decoyrow = "ZNAUX", decoycol = "zdecoy";
  bool decoy = t.chance(1, 4);
  for (auto &r : m.rows) if (r.name == decoyrow) decoy = false;
  for (auto &c : m.cols) if (c.name.rfind(decoycol, 0) == 0) decoy = false;
  if (objname == decoyrow) decoy = false;
  int decoy_at = decoy && m.m() > 0 ? (int)t.below((uint32_t)m.m() + 1) : 0;
  std::set<int> decoy_before;    // a decoy column is written in front of these real columns
  if (decoy) {
    st.features.insert("decoy:second-N-row+unused-columns");
    int nd = 1 + (int)t.below(2);
    for (int k = 0; k < nd && m.n() > 0; k++) decoy_before.insert((int)t.below((uint32_t)m.n()));
  }
  o += "ROWS\n";
  o += " N" + sep() + objname + "\n";
  // a ranged row is declared as L, G or E with a RANGES entry chosen accordingly
  std::vector<char> decl(m.m());
  std::vector<Q> rhs(m.m()), rng(m.m());
  std::vector<bool> hasrng(m.m(), false);
  for (int i = 0; i < m.m(); i++) {
    const Row &r = m.rows[i];
    decl[i] = r.sense;
    rhs[i] = r.rhs;
    if (r.sense == 'R') {
      hasrng[i] = true;
      int k = (int)t.below(4);
      // a zero-width range: an E row with a zero entry, or a G / L row with a RANGES entry of 0 (R = 0 on a G row
      // means rhs <= row <= rhs + 0, on an L row rhs - 0 <= row <= rhs: an equation either way)
      switch (k) {
      case 0: decl[i] = 'G'; rhs[i] = r.rhs; rng[i] = t.coin() ? r.range : -r.range; st.features.insert("ranges:on-G"); break;
      case 1: decl[i] = 'L'; rhs[i] = r.rhs + r.range; rng[i] = t.coin() ? r.range : -r.range; st.features.insert("ranges:on-L"); break;
      case 2: decl[i] = 'E'; rhs[i] = r.rhs; rng[i] = r.range; st.features.insert("ranges:on-E-positive"); break;
      default: decl[i] = 'E'; rhs[i] = r.rhs + r.range; rng[i] = -r.range; st.features.insert("ranges:on-E-negative"); break;
      }
      if (r.range == 0 && rng[i] == 0 && decl[i] == 'E') { hasrng[i] = false; rhs[i] = r.rhs; }   // plain equation
      if (r.range == 0 && decl[i] != 'E') st.features.insert("ranges:zero-on-G-or-L");
    }
    if (decoy && i == decoy_at) o += " N" + sep() + decoyrow + "\n";
    o += " " + std::string(1, decl[i]) + sep() + r.name + "\n";
  }
  if (decoy && decoy_at >= m.m()) o += " N" + sep() + decoyrow + "\n";
  comment();
  o += "COLUMNS\n";
  bool inint = false;
  int marker = 0;
  // integer columns are bracketed by MARKER lines (columns keep their order)
  for (int j = 0; j < m.n(); j++) {
    const Col &c = m.cols[j];
    bool bv_later = false;
    if (c.isint != inint) {
      o += " M" + std::to_string(marker++) + sep() + "'MARKER'" + sep() + (c.isint ? "'INTORG'" : "'INTEND'") + "\n";
      inint = c.isint;
      st.features.insert("marker");
    }
    (void)bv_later;
    if (decoy && decoy_before.count(j)) o += " " + decoycol + std::to_string(j) + sep() + decoyrow + sep() + num(Q(1 + j)) + "\n";
    std::vector<std::pair<std::string, Q>> ent;
    if (c.obj != 0) ent.push_back({objname, c.obj});
    if (decoy && t.chance(1, 3)) ent.push_back({decoyrow, Q(3)});      // entries of real columns in the ignored N row
    for (int i = 0; i < m.m(); i++) { auto it = m.rows[i].a.find(j); if (it != m.rows[i].a.end()) ent.push_back({m.rows[i].name, it->second}); }
    if (ent.empty()) ent.push_back({objname, Q(0)});
    for (size_t k = 0; k < ent.size();) {
      o += " " + c.name + sep() + ent[k].first + sep() + num(ent[k].second);
      k++;
      if (k < ent.size() && t.chance(1, 3)) { o += sep() + ent[k].first + sep() + num(ent[k].second); k++; st.features.insert("columns:two-entries-per-line"); }
      o += "\n";
    }
  }
  if (inint) o += " M" + std::to_string(marker++) + sep() + "'MARKER'" + sep() + "'INTEND'\n";
  comment();
  bool setnames = t.coin();
  o += "RHS\n";
  for (int i = 0; i < m.m(); i++)
    if (rhs[i] != 0 || t.chance(1, 6)) o += " " + std::string(setnames ? "RHSSET" + sep() : "") + m.rows[i].name + sep() + num(rhs[i]) + "\n";
  bool anyr = false;
  for (int i = 0; i < m.m(); i++) anyr = anyr || hasrng[i];
  if (anyr) {
    o += "RANGES\n";
    for (int i = 0; i < m.m(); i++) if (hasrng[i]) o += " " + std::string(setnames ? "RNGSET" + sep() : "") + m.rows[i].name + sep() + num(rng[i]) + "\n";
    st.features.insert("section:ranges");
  }
  comment();
  std::string b;
  // a bound line without a value (FR/MI/PL/BV) is only understood with a bound-set name in front of the
  // column (the reader tells a blank set name from a column by "known column followed by a number");
  // the set name must then be used on every line of the section
  bool bsetnames = setnames;
  for (auto &c : m.cols) {
    bool dl = c.lo == 0, du = is_pinf(c.up);
    if (c.isint || (is_ninf(c.lo)) || (dl && du)) bsetnames = true;
  }
  auto bl = [&](const std::string &ty, const std::string &col, const Q *v) {
    b += " " + ty + sep() + (bsetnames ? "BNDSET" + sep() : std::string("")) + col + (v ? sep() + num(*v) : std::string("")) + "\n";
    st.features.insert("bound:" + ty);
  };
  for (int j = 0; j < m.n(); j++) {
    const Col &c = m.cols[j];
    bool dl = c.lo == 0, du = is_pinf(c.up);
    if (c.isint) {
      // integer columns: bounds always explicit (LI/UI or LO/UP), BV for [0,1]
      if (c.lo == 0 && c.up == 1 && t.coin()) { bl("BV", c.name, nullptr); continue; }
      if (is_fin(c.lo)) bl(t.coin() ? "LI" : "LO", c.name, &c.lo); else bl("MI", c.name, nullptr);
      if (is_fin(c.up)) bl(t.coin() ? "UI" : "UP", c.name, &c.up); else bl("PL", c.name, nullptr);
      continue;
    }
    if (dl && du) { if (t.chance(1, 10)) bl("PL", c.name, nullptr); continue; }
    if (is_ninf(c.lo) && du) { bl("FR", c.name, nullptr); continue; }
    if (c.lo == c.up && t.coin()) { bl("FX", c.name, &c.lo); continue; }
    if (is_ninf(c.lo)) {
      // MI + UP ; (UP alone with a negative value also implies MI, used half of the time)
      if (c.up < 0 && t.coin()) { bl("UP", c.name, &c.up); st.features.insert("bound:negative-UP-implies-MI"); continue; }
      bl("MI", c.name, nullptr);
      bl("UP", c.name, &c.up);
      continue;
    }
    if (!dl) bl("LO", c.name, &c.lo);
    if (!du) bl("UP", c.name, &c.up);
  }
  if (!b.empty()) o += "BOUNDS\n" + b;
  o += "ENDATA\n";
  return o;
}

}  // namespace qsx

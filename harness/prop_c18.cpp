// C18 -- everything allocated is released: create/free cycles do not leak
// Histories and probes of the other properties are executed with a full teardown
// (every problem, basis and array freed, QSexactClear()), then LeakSanitizer is asked
// whether anything allocated by this case is still around (GMP limbs included: the
// build routes GMP through malloc).
#include "qsx_io.hpp"

namespace qsx {

void gen_history(Tape &t, Case &c, int maxlen, bool allow_copy, int solve_weight);
void c05_run(const Case &c, Result &r);
void c06_run(const Case &c, Result &r);
void c07_run(const Case &c, Result &r);
void gen_c07_case(Tape &t, Case &c);

static void teardown(Result &r, const Result &inner) {
  // failures of the inner oracle belong to the property that owns it; here only leaks count
  for (auto &l : inner.labels) if (l.rfind("solve:", 0) == 0 || l.rfind("fn:", 0) == 0 || l.rfind("state:", 0) == 0) r.labels.push_back(l);
  if (inner.verdict == FAIL) r.label("inner-oracle-failed:" + inner.sig.substr(0, 40));
  QSexactClear();
}

static void c18_gen_hist(Tape &t, Case &c) { gen_history(t, c, 10, true, 4); }
static void c18_run_hist(const Case &c, Result &r) {
  Result inner;
  c05_run(c, inner);
  if (inner.verdict == DISCARD) { r.verdict = DISCARD; return; }
  teardown(r, inner);
  bool nonopt = false;
  for (auto &l : inner.labels)
    if (l.rfind("solve:", 0) == 0 && l.find("OPTIMAL") == std::string::npos) nonopt = true;
  r.nontrivial = nonopt || inner.verdict == FAIL;
  r.sample = c.str().substr(0, 2000);
}
static void c18_gen_bad(Tape &t, Case &c) { gen_c07_case(t, c); }
static void c18_run_bad(const Case &c, Result &r) {
  Result inner;
  c07_run(c, inner);
  if (inner.verdict == DISCARD) { r.verdict = DISCARD; return; }
  teardown(r, inner);
  r.nontrivial = true;
  r.canon = inner.canon;
  r.sample = inner.sample;
}

// parse-error paths: a valid file cut or poisoned at a token boundary chosen by the tape, read with and
// without an error collector (LP / MPS / basis), everything released afterwards
static void c18_gen_file(Tape &t, Case &c) {
  Model m;
  bool mps = t.coin();
  gen_file_model(t, m, mps, true, 4, 4, (int)t.below(2));
  EmitStats st;
  std::string text = mps ? emit_mps(t, m, st) : emit_lp(t, m, st);
  // token boundaries
  std::vector<size_t> cuts;
  for (size_t k = 1; k < text.size(); k++) if (isspace((unsigned char)text[k - 1]) && !isspace((unsigned char)text[k])) cuts.push_back(k);
  size_t at = cuts.empty() ? 0 : cuts[t.below((uint32_t)cuts.size())];
  static const char *poison[] = {"", "@@@ ", "1/0 ", "<= >= ", "\nEND\n", "\nROWS\n", ": : ", "9999999999999999999999e5 ", "free inf ", "\n\n"};
  int kind = (int)t.below(12);
  std::string bad;
  if (kind < 2) bad = text.substr(0, at);                                   // truncation
  else if (kind < 10) bad = text.substr(0, at) + poison[kind] + text.substr(at);
  else bad = text.substr(0, at) + text.substr(std::min(text.size(), at + 1 + t.below(12)));   // deletion
  Op f("file");
  f.S(mps ? "MPS" : "LP").S(bad).I(t.below(2)).I(kind).I((long)at);
  c.ops.push_back(f);
}
static void c18_run_file(const Case &c, Result &r) {
  if (c.ops.empty() || c.ops[0].k != "file" || c.ops[0].s.size() < 2) { r.verdict = DISCARD; return; }
  const Op &f = c.ops[0];
  ReadResult rr;
  sut_read_text(f.s[1], f.s[0].c_str(), !f.i.empty() && f.i[0], rr);
  r.label("format:" + f.s[0]);
  r.label(rr.p ? "reader:accepted" : "reader:rejected");
  if (rr.p) {
    // an accepted file is also written once (error paths of the writers) and solved briefly
    std::string path, why;
    sut_write_file(rr.p, f.s[0] == "LP" ? "MPS" : "LP", 0, path, &why);
    int st = 0;
    mpq_QSset_param(rr.p, QS_PARAM_SIMPLEX_MAX_ITERATIONS, 50);
    mpq_QSopt_dual(rr.p, &st);
    mpq_QSfree_prob(rr.p);
  }
  QSexactClear();
  r.nontrivial = !rr.p && rr.lines_consumed >= 2;
  r.canon = f.s[1];
  r.sample = f.s[1].substr(0, 800);
}

// large structured LPs: long phase I (every row needs its own pivot), refactorizations, recomputation
// triggers, the sparse crash basis (>= 200 rows) -- paths that problems with a handful of rows never reach.
// The case is a compact recipe (the runner expands it), so replay files stay small.
static void c18_gen_large(Tape &t, Case &c) {
  Op o("large");
  int kind = (int)t.below(3);
  int mm = 300 + (int)t.below(450);
  o.I(kind).I(mm).I(t.below(3)).I(1 + (int)t.below(2)).I(t.below(5)).I(t.below(5)).I(t.below(1000));   // shape, rows, entry, algo, pprice, dprice, salt
  c.ops.push_back(o);
}
static void c18_run_large(const Case &c, Result &r) {
  if (c.ops.empty() || c.ops[0].k != "large" || c.ops[0].i.size() < 7) { r.verdict = DISCARD; return; }
  const Op &o = c.ops[0];
  int kind = (int)o.i[0] % 3, mm = (int)o.i[1], entry = (int)o.i[2] % 3, algo = (int)o.i[3] == 2 ? DUAL_SIMPLEX : PRIMAL_SIMPLEX;
  if (mm < 2 || mm > 2000) { r.verdict = DISCARD; return; }
  uint64_t salt = (uint64_t)o.i[6];
  auto h = [&](int i, int k) { return fnv64(std::to_string(salt) + ":" + std::to_string(i) + ":" + std::to_string(k)); };
  Model m;
  m.objsense = 1;
  m.name = "large";
  for (int j = 0; j < mm; j++) { Col cc; cc.name = "x" + std::to_string(j); cc.lo = 0; cc.up = PINF(); cc.obj = Q((long)(1 + h(j, 0) % 9)); m.cols.push_back(cc); }
  for (int i = 0; i < mm; i++) {
    Row rw;
    rw.name = "c" + std::to_string(i);
    rw.sense = 'G';
    rw.rhs = Q((long)(1 + h(i, 1) % 7));
    rw.a[i] = Q((long)(1 + h(i, 2) % 5));                       // private column: one phase-I pivot per row
    if (kind >= 1 && i + 1 < mm) rw.a[i + 1] = Q((long)(1 + h(i, 3) % 3));   // banded
    if (kind == 2 && i >= 7) rw.a[i - 7] = Q(-(long)(h(i, 4) % 2));          // a second band, some negative entries
    for (auto it = rw.a.begin(); it != rw.a.end();) { if (it->second == 0) it = rw.a.erase(it); else ++it; }
    m.rows.push_back(rw);
  }
  std::string err;
  mpq_QSprob p = sut_build(m, R_LOAD, &err);
  if (!p) { r.fail("build:" + err, err); return; }
  static const int pp[] = {0, QS_PRICE_PDANTZIG, QS_PRICE_PDEVEX, QS_PRICE_PSTEEP, QS_PRICE_PMULTPARTIAL};
  static const int dp[] = {0, QS_PRICE_DDANTZIG, QS_PRICE_DSTEEP, QS_PRICE_DMULTPARTIAL, QS_PRICE_DDEVEX};
  if (pp[o.i[4] % 5]) mpq_QSset_param(p, QS_PARAM_PRIMAL_PRICING, pp[o.i[4] % 5]);
  if (dp[o.i[5] % 5]) mpq_QSset_param(p, QS_PARAM_DUAL_PRICING, dp[o.i[5] % 5]);
  int st = 0, rv;
  if (entry == 0) { rv = QSexact_solver(p, nullptr, nullptr, nullptr, algo, &st); QSexact_set_precision(128); }
  else { mpq_QSset_param(p, QS_PARAM_SIMPLEX_MAX_ITERATIONS, 4 * mm); rv = algo == DUAL_SIMPLEX ? mpq_QSopt_dual(p, &st) : mpq_QSopt_primal(p, &st); }
  r.label(strprintf("large:%s:%s:rows%s", entry == 0 ? "exact" : "direct", algo == DUAL_SIMPLEX ? "dual" : "primal", mm > 500 ? ">500" : "<=500"));
  r.label(rv ? "large:error" : (st == QS_LP_OPTIMAL ? "large:OPTIMAL" : "large:other-status"));
  mpq_QSfree_prob(p);
  QSexactClear();
  r.nontrivial = rv == 0 && st == QS_LP_OPTIMAL;
  r.canon = c.str();
  r.sample = c.str();
}

// name churn: many rounds of adding named columns/rows and deleting them again on one problem (what a column
// generation host does); the name tables compact and regrow their string buffers along the way
static void c18_gen_churn(Tape &t, Case &c) {
  Op o("churn");
  o.I(5 + (int)t.below(60)).I(1 + (int)t.below(8)).I(1 + (int)t.below(40)).I(t.below(4)).I(t.below(4)).I(t.below(1000));
  // rounds, adds per round, name length, what (0 cols, 1 rows, 2 both, 3 cols with a solve now and then), keep every k-th, salt
  c.ops.push_back(o);
}
static void c18_run_churn(const Case &c, Result &r) {
  if (c.ops.empty() || c.ops[0].k != "churn" || c.ops[0].i.size() < 6) { r.verdict = DISCARD; return; }
  const Op &o = c.ops[0];
  int rounds = (int)o.i[0], per = (int)o.i[1], len = (int)o.i[2], what = (int)o.i[3] % 4, keep = (int)o.i[4] % 4;
  if (rounds < 1 || rounds > 400 || per < 1 || per > 50 || len < 1 || len > 200) { r.verdict = DISCARD; return; }
  mpq_QSprob p = mpq_QScreate_prob("churn", QS_MIN);
  if (!p) { r.fail("create-failed", "QScreate_prob returned NULL"); return; }
  Q zero(0), one(1), ten(10);
  int rc = mpq_QSnew_col(p, one.get_mpq_t(), zero.get_mpq_t(), ten.get_mpq_t(), "base");
  rc |= mpq_QSnew_row(p, one.get_mpq_t(), 'G', "baserow");
  rc |= mpq_QSchange_coef(p, 0, 0, one.get_mpq_t());
  long added = 0, deleted = 0;
  for (int rd = 0; rd < rounds && rc == 0; rd++) {
    std::vector<std::string> names;
    for (int k = 0; k < per; k++) {
      std::string nm = strprintf("n%d_%d_", rd, k);
      while ((int)nm.size() < len) nm += (char)('a' + (nm.size() * 7 + (size_t)rd) % 26);
      names.push_back(nm);
    }
    bool cols = what != 1, rows = what == 1 || what == 2;
    if (cols) for (auto &nm : names) { int ind[1] = {0}; mpq_t v[1]; mpq_init(v[0]); mpq_set_si(v[0], 1 + (long)(nm.size() % 3), 1); rc |= mpq_QSadd_col(p, 1, ind, v, one.get_mpq_t(), zero.get_mpq_t(), ten.get_mpq_t(), ("c" + nm).c_str()); mpq_clear(v[0]); added++; }
    if (rows) for (auto &nm : names) { rc |= mpq_QSnew_row(p, zero.get_mpq_t(), 'L', ("r" + nm).c_str()); added++; }
    if (what == 3 && rd % 7 == 3) { int st = 0; mpq_QSopt_dual(p, &st); }
    // delete what was added in this round, except every keep-th name (so the tables also grow slowly)
    for (size_t k = 0; k < names.size(); k++) {
      if (keep && (int)(k % (size_t)(keep + 1)) == keep) continue;
      if (cols) { rc |= mpq_QSdelete_named_column(p, ("c" + names[k]).c_str()); deleted++; }
      if (rows) { rc |= mpq_QSdelete_named_row(p, ("r" + names[k]).c_str()); deleted++; }
    }
  }
  if (rc) r.fail("churn:valid-call-rejected", "a valid add/delete of a named row or column was rejected during the churn");
  // every surviving name must still be found under its own index
  if (r.verdict == PASS) {
    int n = mpq_QSget_colcount(p), m = mpq_QSget_rowcount(p);
    std::vector<char *> cn((size_t)n + 1, nullptr), rn((size_t)m + 1, nullptr);
    if (mpq_QSget_colnames(p, cn.data()) == 0) {
      for (int j = 0; j < n && r.verdict == PASS; j++) { int idx = -2; mpq_QSget_column_index(p, cn[j], &idx); if (idx != j) r.fail("churn:name-lookup", strprintf("column %d named %s is looked up as index %d", j, cn[j], idx)); }
      for (int j = 0; j < n; j++) mpq_QSfree(cn[j]);
    }
    if (mpq_QSget_rownames(p, rn.data()) == 0) {
      for (int i = 0; i < m && r.verdict == PASS; i++) { int idx = -2; mpq_QSget_row_index(p, rn[i], &idx); if (idx != i) r.fail("churn:name-lookup", strprintf("row %d named %s is looked up as index %d", i, rn[i], idx)); }
      for (int i = 0; i < m; i++) mpq_QSfree(rn[i]);
    }
  }
  int st = 0;
  mpq_QSopt_dual(p, &st);
  mpq_QSfree_prob(p);
  QSexactClear();
  r.label(strprintf("churn:%s:rounds%s", what == 0 ? "cols" : what == 1 ? "rows" : what == 2 ? "both" : "cols+solve", rounds >= 20 ? ">=20" : "<20"));
  r.label(added * len >= 4000 ? "churn:name-bytes>=4000" : "churn:name-bytes<4000");
  r.nontrivial = deleted >= 20;
  r.canon = c.str();
  r.sample = c.str();
}

static std::string c18_context(const Case &c) {
  for (auto &o : c.ops) if (o.k == "bad" && o.i.size() >= 2) return strprintf("probe=%ld", o.i[0]);
  return "";
}

void register_c18() {
  Property a = {"C18", "hist", c18_gen_hist, c18_run_hist, 4, 240, true};
  register_property(a);
  Property b = {"C18", "bad", c18_gen_bad, c18_run_bad, 2, 60, true};
  b.keep_going = true;
  register_property(b);
  Property f = {"C18", "file", c18_gen_file, c18_run_file, 6, 60, true};
  f.keep_going = true;
  register_property(f);
  Property l = {"C18", "large", c18_gen_large, c18_run_large, 1, 300, true};
  l.keep_going = true;
  register_property(l);
  Property ch = {"C18", "churn", c18_gen_churn, c18_run_churn, 1, 120, true};
  ch.keep_going = true;
  register_property(ch);
  (void)c18_context;
}

}  // namespace qsx

// C18 -- everything allocated is released: create/free cycles do not leak
// Histories and probes of the other properties are executed with a full teardown
// (every problem, basis and array freed, QSexactClear()), then LeakSanitizer is asked
// whether anything allocated by this case is still around (GMP limbs included: the
// build routes GMP through malloc).
#include "qsx.hpp"

namespace qsx {

void gen_history(Tape &t, Case &c, int maxlen, bool allow_copy, int solve_weight);
void c05_run(const Case &c, Result &r);
void c06_run(const Case &c, Result &r);
void c07_run(const Case &c, Result &r);
void gen_c07_case(Tape &t, Case &c);

static void teardown(Result &r, const Result &inner) {
  // failures of the inner oracle belong to the property that owns it; here only leaks count
  for (auto &l : inner.labels) if (l.rfind("solve:", 0) == 0 || l.rfind("fn:", 0) == 0 || l.rfind("state:", 0) == 0) r.labels.push_back(l);
  if (inner.verdict == FAIL) r.label("inner-oracle-failed:" + inner.sig.substr(0, 40));
  QSexactClear();
}

static void c18_gen_hist(Tape &t, Case &c) { gen_history(t, c, 10, true, 4); }
static void c18_run_hist(const Case &c, Result &r) {
  Result inner;
  c05_run(c, inner);
  if (inner.verdict == DISCARD) { r.verdict = DISCARD; return; }
  teardown(r, inner);
  bool nonopt = false;
  for (auto &l : inner.labels)
    if (l.rfind("solve:", 0) == 0 && l.find("OPTIMAL") == std::string::npos) nonopt = true;
  r.nontrivial = nonopt || inner.verdict == FAIL;
  r.sample = c.str().substr(0, 2000);
}
static void c18_gen_bad(Tape &t, Case &c) { gen_c07_case(t, c); }
static void c18_run_bad(const Case &c, Result &r) {
  Result inner;
  c07_run(c, inner);
  if (inner.verdict == DISCARD) { r.verdict = DISCARD; return; }
  teardown(r, inner);
  r.nontrivial = true;
  r.canon = inner.canon;
  r.sample = inner.sample;
}

static std::string c18_context(const Case &c) {
  for (auto &o : c.ops) if (o.k == "bad" && o.i.size() >= 2) return strprintf("probe=%ld", o.i[0]);
  return "";
}

void register_c18() {
  Property a = {"C18", "hist", c18_gen_hist, c18_run_hist, 4, 240, true};
  register_property(a);
  Property b = {"C18", "bad", c18_gen_bad, c18_run_bad, 2, 60, true};
  b.keep_going = true;
  register_property(b);
  (void)c18_context;
}

}  // namespace qsx

// C18 -- everything allocated is released: create/free cycles do not leak
// Histories and probes of the other properties are executed with a full teardown
// (every problem, basis and array freed, QSexactClear()), then LeakSanitizer is asked
// whether anything allocated by this case is still around (GMP limbs included: the
// build routes GMP through malloc).
#include "qsx_io.hpp"

namespace qsx {

void gen_history(Tape &t, Case &c, int maxlen, bool allow_copy, int solve_weight);
void c05_run(const Case &c, Result &r);
void c06_run(const Case &c, Result &r);
void c07_run(const Case &c, Result &r);
void gen_c07_case(Tape &t, Case &c);

static void teardown(Result &r, const Result &inner) {
  // failures of the inner oracle belong to the property that owns it; here only leaks count
  for (auto &l : inner.labels) if (l.rfind("solve:", 0) == 0 || l.rfind("fn:", 0) == 0 || l.rfind("state:", 0) == 0) r.labels.push_back(l);
  if (inner.verdict == FAIL) r.label("inner-oracle-failed:" + inner.sig.substr(0, 40));
  QSexactClear();
}

static void c18_gen_hist(Tape &t, Case &c) { gen_history(t, c, 10, true, 4); }
static void c18_run_hist(const Case &c, Result &r) {
  Result inner;
  c05_run(c, inner);
  if (inner.verdict == DISCARD) { r.verdict = DISCARD; return; }
  teardown(r, inner);
  bool nonopt = false;
  for (auto &l : inner.labels)
    if (l.rfind("solve:", 0) == 0 && l.find("OPTIMAL") == std::string::npos) nonopt = true;
  r.nontrivial = nonopt || inner.verdict == FAIL;
  r.sample = c.str().substr(0, 2000);
}
static void c18_gen_bad(Tape &t, Case &c) { gen_c07_case(t, c); }
static void c18_run_bad(const Case &c, Result &r) {
  Result inner;
  c07_run(c, inner);
  if (inner.verdict == DISCARD) { r.verdict = DISCARD; return; }
  teardown(r, inner);
  r.nontrivial = true;
  r.canon = inner.canon;
  r.sample = inner.sample;
}

// parse-error paths: a valid file cut or poisoned at a token boundary chosen by the tape, read with and
// without an error collector (LP / MPS / basis), everything released afterwards
static void c18_gen_file(Tape &t, Case &c) {
  Model m;
  bool mps = t.coin();
  gen_file_model(t, m, mps, true, 4, 4, (int)t.below(2));
  EmitStats st;
  std::string text = mps ? emit_mps(t, m, st) : emit_lp(t, m, st);
  // token boundaries
  std::vector<size_t> cuts;
  for (size_t k = 1; k < text.size(); k++) if (isspace((unsigned char)text[k - 1]) && !isspace((unsigned char)text[k])) cuts.push_back(k);
  size_t at = cuts.empty() ? 0 : cuts[t.below((uint32_t)cuts.size())];
  static const char *poison[] = {"", "@@@ ", "1/0 ", "<= >= ", "\nEND\n", "\nROWS\n", ": : ", "9999999999999999999999e5 ", "free inf ", "\n\n"};
  int kind = (int)t.below(12);
  std::string bad;
  if (kind < 2) bad = text.substr(0, at);                                   // truncation
  else if (kind < 10) bad = text.substr(0, at) + poison[kind] + text.substr(at);
  else bad = text.substr(0, at) + text.substr(std::min(text.size(), at + 1 + t.below(12)));   // deletion
  Op f("file");
  f.S(mps ? "MPS" : "LP").S(bad).I(t.below(2)).I(kind).I((long)at);
  c.ops.push_back(f);
}
static void c18_run_file(const Case &c, Result &r) {
  if (c.ops.empty() || c.ops[0].k != "file" || c.ops[0].s.size() < 2) { r.verdict = DISCARD; return; }
  const Op &f = c.ops[0];
  ReadResult rr;
  sut_read_text(f.s[1], f.s[0].c_str(), !f.i.empty() && f.i[0], rr);
  r.label("format:" + f.s[0]);
  r.label(rr.p ? "reader:accepted" : "reader:rejected");
  if (rr.p) {
    // an accepted file is also written once (error paths of the writers) and solved briefly
    std::string path, why;
    sut_write_file(rr.p, f.s[0] == "LP" ? "MPS" : "LP", 0, path, &why);
    int st = 0;
    mpq_QSset_param(rr.p, QS_PARAM_SIMPLEX_MAX_ITERATIONS, 50);
    mpq_QSopt_dual(rr.p, &st);
    mpq_QSfree_prob(rr.p);
  }
  QSexactClear();
  r.nontrivial = !rr.p && rr.lines_consumed >= 2;
  r.canon = f.s[1];
  r.sample = f.s[1].substr(0, 800);
}

static std::string c18_context(const Case &c) {
  for (auto &o : c.ops) if (o.k == "bad" && o.i.size() >= 2) return strprintf("probe=%ld", o.i[0]);
  return "";
}

void register_c18() {
  Property a = {"C18", "hist", c18_gen_hist, c18_run_hist, 4, 240, true};
  register_property(a);
  Property b = {"C18", "bad", c18_gen_bad, c18_run_bad, 2, 60, true};
  b.keep_going = true;
  register_property(b);
  Property f = {"C18", "file", c18_gen_file, c18_run_file, 6, 60, true};
  f.keep_going = true;
  register_property(f);
  (void)c18_context;
}

}  // namespace qsx

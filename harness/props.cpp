// props.cpp -- registry of all property checks
#include "qsx.hpp"
namespace qsx {
void register_c06();
void register_solve();
void register_c05();
void register_c07();
void register_c16();
void register_c18();
void register_c20();
void register_io();
void register_c14();
void register_c12();
void register_c19();
void register_c15();
void register_c17();
void register_c13();
void register_all_properties() {
  static bool done = false;
  if (done) return;
  done = true;
  register_c06();
  register_solve();
  register_c05();
  register_c07();
  register_c16();
  register_c18();
  register_c20();
  register_io();
  register_c14();
  register_c12();
  register_c19();
  register_c15();
  register_c17();
  register_c13();
}
}

#pragma once
#include "qsx.hpp"
namespace qsx {
struct EditGen {
  int maxm = 12, maxn = 12, minn = 0;
  int bulk = 4;            // max rows/cols per bulk add
  int bulk_min = 1;
  int minrowlen = 1;
  bool force_bulk = false; // add-ops use the multi-row / multi-column entry points
  int maxrowlen = 6;       // max non-zeros in an added row / column
  int maxdel = 4;
  int bigness = 1;
  bool allow_range = true;
  bool allow_chgsense_R = true;
  bool allow_null_names = true;
  bool allow_zero_coef = true;
  bool globally_unique = false;
  int name_counter = 0;
  bool call_has_null = false, call_has_libshape = false;   // per-call bookkeeping
};
bool op_valid(const Model &m, const Op &o);
// documented meaning of an edit applied to the reference model
bool model_apply(Model &m, const Op &o, std::vector<std::pair<int, int>> *unnamed);
// the same edit applied to the library (returns the library's return code)
int sut_apply(mpq_QSprob p, const Op &o, const Model &before);
bool adopt_names(mpq_QSprob p, Model &m, const std::vector<std::pair<int, int>> &unnamed, std::string *why);
// draw one valid edit from the current model state
bool gen_edit(Tape &t, const Model &m, EditGen &g, Op &o, int force_kind = -1);
}

// qsx_gen.cpp -- constructive, labelled LP generators driven by the choice tape
#include "qsx.hpp"

namespace qsx {

static Q small_int(Tape &t) { return Q((long)t.below(11) - 5); }

Q gen_num(Tape &t, int big) {
  // pool index 0 (tape exhausted / shrunk) gives small integers
  int pool = big == 0 ? 0 : (int)t.below(big >= 2 ? 10 : 6);
  switch (pool) {
  case 0: case 1: return small_int(t);
  case 2: {   // small fractions
    long d = 1 + (long)t.below(12);
    Q v((long)t.below(41) - 20, d);
    v.canonicalize();      // GMP requires canonical operands
    return v;
  }
  case 3: {   // decimal-looking values not representable in binary
    static const char *dec[] = {"1/10", "1/3", "2/3", "1/100", "7/10", "123/1000", "1/7", "22/7", "355/113", "999999/1000000"};
    Q v(dec[t.below(10)]);
    return t.coin() ? v : -v;
  }
  case 4: return Q((long)t.below(2001) - 1000);
  case 5: {   // awkward denominators: primes near 2^31 and 2^61-1
    static const char *pr[] = {"2147483647", "2147483629", "2305843009213693951", "4294967291", "1000000007"};
    Q v;
    v = Q((long)t.below(1000) + 1) / Q(pr[t.below(5)]);
    v.canonicalize();
    return t.coin() ? v : -v;
  }
  case 6: {   // powers of two, both directions; a third of the time decimal big-M style values d * 10^k
    int k = (int)t.below(120) - 60;
    Q v = qpow2(k) * Q((long)t.below(7) + 1);
    if (t.chance(1, 3)) {
      int e = (int)t.below(41);
      mpz_class p10;
      mpz_ui_pow_ui(p10.get_mpz_t(), 10, (unsigned long)e);
      v = Q(p10) * Q((long)t.below(9) + 1);
      if (t.chance(1, 4)) v = Q(1) / v;
    }
    return t.coin() ? v : -v;
  }
  case 7: {   // big magnitudes 2^+-k, k up to 300
    int k = (int)t.below(601) - 300;
    Q v = qpow2(k);
    return t.coin() ? v : -v;
  }
  case 8: {   // values differing by a relative 2^-60 from a simple one
    Q base = Q((long)t.below(9) + 1);
    Q v = base * (Q(1) + qpow2(-60) * Q((long)t.below(5) - 2));
    return t.coin() ? v : -v;
  }
  default: {  // huge numerator / denominator
    Q a(1), b(1);
    for (int k = 0; k < 4; k++) { a = a * Q((long)t.u32() + 1); b = b * Q((long)t.u32() + 1); }
    Q v = a / b;
    return t.coin() ? v : -v;
  }
  }
}
Q gen_nz(Tape &t, int big) {
  for (int k = 0; k < 4; k++) {
    Q v = gen_num(t, big);
    if (v != 0) return v;
  }
  return Q(1);
}
std::string gen_name(Tape &t, const char *prefix, int idx) {
  return std::string(prefix) + std::to_string(idx);
}

}  // namespace qsx

// =====================================================================================
// LP families
// =====================================================================================
namespace qsx {

static void name_all(Model &m) {
  for (int j = 0; j < m.n(); j++) m.cols[j].name = "x" + std::to_string(j + 1);
  for (int i = 0; i < m.m(); i++) m.rows[i].name = "c" + std::to_string(i + 1);
}

// random sparse row over n columns
static void rand_row(Tape &t, int n, int big, int maxlen, Row &r) {
  r.a.clear();
  if (n == 0) return;
  int k = 1 + (int)t.below((uint32_t)std::min(n, maxlen));
  for (int c = 0; c < k; c++) r.a[(int)t.below((uint32_t)n)] = gen_nz(t, big);
}

static void rand_box(Tape &t, int big, Q &lo, Q &up, bool want_finite) {
  int kind = want_finite ? 6 + (int)t.below(2) : (int)t.below(8);
  switch (kind) {
  case 0: case 1: lo = 0; up = PINF(); break;
  case 2: lo = NINF(); up = PINF(); break;
  case 3: lo = gen_num(t, big); up = PINF(); break;
  case 4: lo = NINF(); up = gen_num(t, big); break;
  case 5: lo = gen_num(t, big); up = lo; break;
  case 6: lo = 0; up = abs(gen_nz(t, big)); break;
  default: { Q a = gen_num(t, big), b = gen_num(t, big); lo = a < b ? a : b; up = a < b ? b : a; }
  }
}

// point inside [lo,up]; 'where' 0 = at lower (if finite), 1 = at upper, 2 = interior / anywhere
static Q point_in(Tape &t, const Q &lo, const Q &up, int where, int big) {
  bool fl = is_fin(lo), fu = is_fin(up);
  if (where == 0 && fl) return lo;
  if (where == 1 && fu) return up;
  if (fl && fu) {
    if (lo == up) return lo;
    Q f = Q((long)t.below(9) + 1, 10);
    f.canonicalize();
    return lo + (up - lo) * f;
  }
  if (fl) return lo + abs(gen_num(t, big)) + (where == 2 ? Q(1) : Q(0));
  if (fu) return up - abs(gen_num(t, big)) - (where == 2 ? Q(1) : Q(0));
  return gen_num(t, big);
}

static Q dot(const Row &r, const std::vector<Q> &x) {
  Q a = 0;
  for (auto &kv : r.a) a += kv.second * x[kv.first];
  return a;
}

// Given a model with columns (bounds) and rows (coefficients only), choose x0, row senses/rhs and
// multipliers so that (x0, y0) is an optimal primal-dual pair; sets the objective.
static void make_optimal(Tape &t, Model &m, int big, int degeneracy, GenLP &out) {
  int n = m.n(), mm = m.m();
  bool mini = m.objsense >= 0;
  std::vector<Q> x0(n), y0(mm, Q(0)), d0(n, Q(0));
  std::vector<int> where(n);
  for (int j = 0; j < n; j++) {
    where[j] = (int)t.below(3);
    x0[j] = point_in(t, m.cols[j].lo, m.cols[j].up, where[j], big);
  }
  for (int i = 0; i < mm; i++) {
    Row &r = m.rows[i];
    Q act = dot(r, x0);
    int tight = (int)t.below(3);            // 0 slack, 1 tight with multiplier, 2 tight degenerate
    if ((int)t.below(8) < degeneracy) tight = 2;
    r.sense = "LGER"[t.below(4)];
    r.range = 0;
    Q gap = abs(gen_nz(t, big));
    Q ymag = abs(gen_nz(t, big));
    switch (r.sense) {
    case 'L':
      r.rhs = tight ? act : act + gap;
      if (tight == 1) y0[i] = mini ? -ymag : ymag;
      break;
    case 'G':
      r.rhs = tight ? act : act - gap;
      if (tight == 1) y0[i] = mini ? ymag : -ymag;
      break;
    case 'E':
      r.rhs = act;
      if (tight >= 1) y0[i] = t.coin() ? ymag : -ymag;
      if (tight == 2) y0[i] = 0;
      break;
    default: {   // R: rhs <= act <= rhs + range
      int side = (int)t.below(3);           // 0 at lower side, 1 at upper side, 2 interior
      Q rg = t.chance(1, 6) ? Q(0) : abs(gen_nz(t, big));
      r.range = rg;
      if (rg == 0) { r.rhs = act; if (tight == 1) y0[i] = t.coin() ? ymag : -ymag; }
      else if (side == 0) { r.rhs = act; if (tight == 1) y0[i] = mini ? ymag : -ymag; }
      else if (side == 1) { r.rhs = act - rg; if (tight == 1) y0[i] = mini ? -ymag : ymag; }
      else { r.rhs = act - rg / 2; }
    }
    }
  }
  for (int j = 0; j < n; j++) {
    const Col &c = m.cols[j];
    bool atlo = is_fin(c.lo) && x0[j] == c.lo, atup = is_fin(c.up) && x0[j] == c.up;
    Q mag = abs(gen_nz(t, big));
    int pick = (int)t.below(3);
    if ((int)t.below(8) < degeneracy) pick = 2;   // zero reduced cost although at a bound
    if (pick == 2) d0[j] = 0;
    else if (atlo && atup) d0[j] = t.coin() ? mag : -mag;
    else if (atlo) d0[j] = mini ? mag : -mag;
    else if (atup) d0[j] = mini ? -mag : mag;
    else d0[j] = 0;
  }
  // c = A^T y0 + d0
  for (int j = 0; j < n; j++) m.cols[j].obj = d0[j];
  for (int i = 0; i < mm; i++)
    for (auto &kv : m.rows[i].a) m.cols[kv.first].obj += y0[i] * kv.second;
  out.wx = x0;
  out.wy = y0;
  Q v = 0;
  for (int j = 0; j < n; j++) v += m.cols[j].obj * x0[j];
  out.expect = T_OPTIMAL;
  out.expect_value = v;
}

static void base_shape(Tape &t, const GenOpts &o, Model &m, int big, bool finite_boxes = false) {
  m = Model();
  m.objsense = t.coin() ? -1 : 1;
  int n = std::max(1, o.minn) + (int)t.below((uint32_t)std::max(1, o.maxn - std::max(1, o.minn) + 1)), mm = o.minm + (int)t.below((uint32_t)std::max(1, o.maxm - o.minm + 1));
  for (int j = 0; j < n; j++) {
    Col c;
    rand_box(t, big, c.lo, c.up, finite_boxes);
    m.cols.push_back(c);
  }
  for (int i = 0; i < mm; i++) {
    Row r;
    rand_row(t, n, big, std::max(2, std::min(n, 6)), r);
    m.rows.push_back(r);
  }
}

void gen_lp_family(Tape &t, const GenOpts &o, int family, GenLP &out) {
  out = GenLP();
  Model &m = out.m;
  int big = o.bigness >= 2 ? (int)t.below(3) : std::min(o.bigness, (int)t.below(2));
  static const char *names[] = {"F-rand", "F-opt", "F-inf", "F-face", "F-unb", "F-ill", "F-cyc", "F-shape", "F-fixb", "F-dup", "F-cover"};
  out.family = names[family % F_NFAM];
  switch (family % F_NFAM) {
  case F_RAND: {
    base_shape(t, o, m, big);
    for (auto &c : m.cols) c.obj = gen_num(t, big);
    for (auto &r : m.rows) {
      r.sense = "LGER"[t.below(o.allow_range ? 4 : 3)];
      // E rows make random LPs almost surely infeasible: keep them rare
      if (r.sense == 'E' && !t.chance(1, 4)) r.sense = t.coin() ? 'L' : 'G';
      r.rhs = gen_num(t, big);
      r.range = r.sense == 'R' ? abs(gen_num(t, big)) : Q(0);
    }
    break;
  }
  case F_OPT: {
    base_shape(t, o, m, big);
    make_optimal(t, m, big, (int)t.below(4), out);
    break;
  }
  case F_FACE: {
    base_shape(t, o, m, big);
    make_optimal(t, m, big, 1 + (int)t.below(5), out);
    // add face structure around the witness: opposite-sense twins of rows, sums of equalities
    int mm = m.m();
    int extra = 1 + (int)t.below(3);
    for (int e = 0; e < extra && mm > 0; e++) {
      int i = (int)t.below((uint32_t)mm);
      Row r = m.rows[i];
      Q act = dot(r, out.wx);
      if (t.coin()) {   // twin: pins the row to its activity
        r.sense = r.sense == 'L' ? 'G' : 'L';
        r.rhs = act; r.range = 0;
      } else {          // sum of two rows as a (redundant) equality through the witness
        int i2 = (int)t.below((uint32_t)mm);
        Q f = gen_nz(t, 1);
        for (auto &kv : m.rows[i2].a) { r.a[kv.first] += f * kv.second; if (r.a[kv.first] == 0) r.a.erase(kv.first); }
        r.sense = 'E'; r.rhs = dot(r, out.wx); r.range = 0;
      }
      m.rows.push_back(r);
      out.wy.push_back(Q(0));
    }
    break;
  }
  case F_INF: {
    base_shape(t, o, m, big, true);     // finite boxes so the aggregated row is bounded
    for (auto &c : m.cols) c.obj = gen_num(t, big);
    int n = m.n();
    // ordinary rows: anything (they cannot repair infeasibility)
    for (auto &r : m.rows) {
      r.sense = t.coin() ? 'L' : 'G';
      Q lo = 0, up = 0;
      for (auto &kv : r.a) {
        Q a = kv.second * m.cols[kv.first].lo, b = kv.second * m.cols[kv.first].up;
        lo += a < b ? a : b; up += a < b ? b : a;
      }
      r.rhs = r.sense == 'L' ? up : lo;   // implied by the box: harmless
      r.range = 0;
      if (o.allow_range && t.chance(1, 5)) { Q width = abs(gen_nz(t, 1)); if (r.sense == 'L') r.rhs = r.rhs - width; r.sense = 'R'; r.range = width; }
    }
    // the contradiction: a = a1 + a2, a1.x >= r1, a2.x >= r2, r1 + r2 = max_box(a.x) + eps
    static const int margins[] = {0, -20, -60, -200};
    int mk = (int)t.below(4);
    Q eps = mk == 0 ? Q(1) : qpow2(margins[mk]);
    Row a1, a2;
    rand_row(t, n, big, std::max(2, std::min(n, 5)), a1);
    rand_row(t, n, big, std::max(2, std::min(n, 5)), a2);
    Q umax = 0, u1 = 0;
    std::map<int, Q> sum = a1.a;
    for (auto &kv : a2.a) sum[kv.first] += kv.second;
    for (auto &kv : sum) { Q a = kv.second * m.cols[kv.first].lo, b = kv.second * m.cols[kv.first].up; umax += a < b ? b : a; }
    for (auto &kv : a1.a) { Q a = kv.second * m.cols[kv.first].lo, b = kv.second * m.cols[kv.first].up; u1 += a < b ? b : a; }
    bool two = t.coin();
    std::vector<Q> y(m.m(), Q(0));
    if (two) {
      a1.sense = 'G'; a1.rhs = u1 - abs(gen_num(t, 1));
      a2.sense = 'G'; a2.rhs = umax + eps - a1.rhs;
      if (t.coin()) {   // present the second one as an L row of the negated vector
        for (auto &kv : a2.a) kv.second = -kv.second;
        a2.rhs = -a2.rhs; a2.sense = 'L';
      }
      // a G row is the lower side of a ranged row, an L row its upper side: present them that way now and then
      for (Row *rp : {&a1, &a2}) {
        if (!o.allow_range || !t.chance(1, 3)) continue;
        Q width = abs(gen_nz(t, 1));
        if (rp->sense == 'G') { rp->sense = 'R'; rp->range = width; }
        else if (rp->sense == 'L') { rp->sense = 'R'; rp->rhs = rp->rhs - width; rp->range = width; }
      }
      int p1 = (int)t.below((uint32_t)m.m() + 1);
      m.rows.insert(m.rows.begin() + p1, a1);
      int p2 = (int)t.below((uint32_t)m.m() + 1);
      m.rows.insert(m.rows.begin() + p2, a2);
    } else {
      Row a;
      a.a = sum;
      for (auto it = a.a.begin(); it != a.a.end();) { if (it->second == 0) it = a.a.erase(it); else ++it; }
      a.sense = t.coin() ? 'G' : 'E';
      a.rhs = umax + eps;
      if (a.sense == 'G' && o.allow_range && t.chance(1, 3)) { a.sense = 'R'; a.range = abs(gen_nz(t, 1)); }
      m.rows.insert(m.rows.begin() + (int)t.below((uint32_t)m.m() + 1), a);
    }
    out.expect = T_INFEASIBLE;
    out.family += mk == 0 ? "/margin1" : strprintf("/margin2^%d", margins[mk]);
    if (o.bigness >= 2 && t.chance(1, 5)) {
      // A free (or one-sided) extra column with a coefficient far below double range in every row: in exact
      // arithmetic it repairs any contradiction (the LP is feasible, z is astronomically large), while every
      // floating-point stage sees a zero column and an infeasible LP.  Truth is left to the reference solver.
      Col z;
      z.obj = 0;
      int shape = (int)t.below(3);
      z.lo = shape == 1 ? Q(0) : NINF();
      z.up = shape == 2 ? Q(0) : PINF();
      int e = t.coin() ? 520 + (int)t.below(240) : 60 + (int)t.below(400);
      m.cols.push_back(z);
      int zi = m.n() - 1;
      for (auto &r : m.rows) {
        if (r.a.empty()) continue;
        Q d = qpow2(-e) * Q(1 + (long)t.below(9));
        // sign so that moving z in its allowed direction relaxes the row
        bool zpos = shape != 2;          // z may go to +infinity
        bool want_up = r.sense == 'G' || r.sense == 'E';   // activity has to grow
        r.a[zi] = (want_up == zpos) ? d : -d;
        if (shape == 0 && t.coin()) r.a[zi] = -r.a[zi];   // free: either sign works
      }
      out.expect = T_UNKNOWN;
      out.family += strprintf("/rescued-by-tiny-column2^-%d", e);
    }
    break;
  }
  case F_UNB: {
    base_shape(t, o, m, big);
    int n = m.n();
    std::vector<Q> d(n, Q(0)), x0(n);
    int k = 1 + (int)t.below((uint32_t)std::min(n, 2));
    for (int c = 0; c < k; c++) d[(int)t.below((uint32_t)n)] = gen_nz(t, 1);
    for (int j = 0; j < n; j++) {
      if (d[j] > 0) m.cols[j].up = PINF();
      if (d[j] < 0) m.cols[j].lo = NINF();
      x0[j] = point_in(t, m.cols[j].lo, m.cols[j].up, 2, big);
    }
    for (auto &r : m.rows) {
      Q ad = dot(r, d), act = dot(r, x0), gap = abs(gen_num(t, big));
      if (ad > 0) { r.sense = 'G'; r.rhs = act - gap; }
      else if (ad < 0) { r.sense = 'L'; r.rhs = act + gap; }
      else {
        r.sense = "LGER"[t.below(4)];
        r.range = r.sense == 'R' ? abs(gen_num(t, big)) : Q(0);
        r.rhs = r.sense == 'L' ? act + gap : (r.sense == 'G' ? act - gap : (r.sense == 'E' ? act : act - r.range / 2));
      }
    }
    // objective improving along d
    for (auto &c : m.cols) c.obj = 0;
    for (int j = 0; j < n; j++) if (d[j] != 0) m.cols[j].obj = (m.objsense >= 0 ? Q(-1) : Q(1)) * d[j] * abs(gen_nz(t, 1));
    for (int j = 0; j < n; j++) if (d[j] == 0 && t.chance(1, 3) && is_fin(m.cols[j].lo) && is_fin(m.cols[j].up)) m.cols[j].obj = gen_num(t, 1);
    out.expect = T_UNBOUNDED;
    out.wx = x0; out.wd = d;
    break;
  }
  case F_ILL: {
    // ill-conditioned matrices, then the optimal-by-construction recipe on top
    m = Model();
    m.objsense = t.coin() ? -1 : 1;
    int n = 2 + (int)t.below((uint32_t)std::max(1, o.maxn - 1));
    int mm = 2 + (int)t.below((uint32_t)std::max(1, o.maxm - 1));
    for (int j = 0; j < n; j++) { Col c; rand_box(t, 1, c.lo, c.up, false); m.cols.push_back(c); }
    int kind = (int)t.below(4);
    for (int i = 0; i < mm; i++) {
      Row r;
      if (kind == 0) {            // Hilbert-like
        for (int j = 0; j < n; j++) r.a[j] = Q(1, i + j + 1);
      } else if (kind == 1 && i > 0) {   // near parallel to the previous row
        r = m.rows[i - 1];
        int e = 30 + (int)t.below(40);
        for (auto &kv : r.a) kv.second *= (Q(1) + qpow2(-e) * Q((long)t.below(5) - 2));
        if (!r.a.empty() && t.coin()) r.a.begin()->second += qpow2(-e);
      } else if (kind == 2) {     // huge coefficient spread
        rand_row(t, n, 1, n, r);
        for (auto &kv : r.a) kv.second *= qpow2((int)t.below(130) - 65);
      } else {
        rand_row(t, n, 2, n, r);
      }
      if (r.a.empty()) r.a[0] = 1;
      m.rows.push_back(r);
    }
    make_optimal(t, m, 1, (int)t.below(5), out);
    out.family += strprintf("/k%d", kind);
    break;
  }
  case F_CYC: {
    // classical cycling examples under random positive row/column scalings and permutations
    m = Model();
    int which = (int)t.below(2);
    std::vector<std::vector<Q>> A;
    std::vector<Q> c, b;
    if (which == 0) {   // Beale: min -3/4 x1 + 150 x2 - 1/50 x3 + 6 x4
      A = {{Q(1, 4), Q(-60), Q(-1, 25), Q(9)}, {Q(1, 2), Q(-90), Q(-1, 50), Q(3)}, {Q(0), Q(0), Q(1), Q(0)}};
      b = {Q(0), Q(0), Q(1)};
      c = {Q(-3, 4), Q(150), Q(-1, 50), Q(6)};
    } else {            // Kuhn: min -2x1 -3x2 + x3 + 12 x4
      A = {{Q(-2), Q(-9), Q(1), Q(9)}, {Q(1, 3), Q(1), Q(-1, 3), Q(-2)}, {Q(1), Q(1), Q(1), Q(1)}};
      b = {Q(0), Q(0), Q(10)};   // third row bounds the otherwise unbounded problem
      c = {Q(-2), Q(-3), Q(1), Q(12)};
    }
    int n = (int)c.size(), mm = (int)b.size();
    std::vector<int> cp(n), rp(mm);
    for (int j = 0; j < n; j++) cp[j] = j;
    for (int i = 0; i < mm; i++) rp[i] = i;
    for (int j = n - 1; j > 0; j--) std::swap(cp[j], cp[t.below((uint32_t)j + 1)]);
    for (int i = mm - 1; i > 0; i--) std::swap(rp[i], rp[t.below((uint32_t)i + 1)]);
    std::vector<Q> cs(n), rs(mm);
    for (auto &v : cs) v = t.coin() ? Q(1) : abs(gen_nz(t, 1));
    for (auto &v : rs) v = t.coin() ? Q(1) : abs(gen_nz(t, 1));
    bool flip = t.coin();   // present as a maximisation of the negated objective
    m.objsense = flip ? -1 : 1;
    for (int j = 0; j < n; j++) { Col col; col.lo = 0; col.up = PINF(); col.obj = (flip ? Q(-1) : Q(1)) * c[cp[j]] * cs[j]; m.cols.push_back(col); }
    for (int i = 0; i < mm; i++) {
      Row r; r.sense = 'L'; r.rhs = b[rp[i]] * rs[i];
      for (int j = 0; j < n; j++) { Q v = A[rp[i]][cp[j]] * rs[i] * cs[j]; if (v != 0) r.a[j] = v; }
      m.rows.push_back(r);
    }
    out.family += which == 0 ? "/beale" : "/kuhn";
    break;
  }
  case F_COVER: {
    // knapsack-cover / packing LPs over boxed columns with small non-negative integer data: the dual simplex
    // passes bound-flip breakpoints of boxed columns (long-step ratio test), the primal one flips bounds
    m = Model();
    bool cover = !t.chance(1, 4);
    m.objsense = cover ? 1 : -1;
    int n = 2 + (int)t.below((uint32_t)std::max(1, std::min(o.maxn, 9) - 1));
    int mm = 1 + (int)t.below((uint32_t)std::max(1, std::min(o.maxm, 4)));
    if (o.minm > mm) mm = o.minm + (int)t.below((uint32_t)std::max(1, o.maxm - o.minm + 1));
    if (o.minn > n) n = o.minn + (int)t.below((uint32_t)std::max(1, o.maxn - o.minn + 1));
    for (int j = 0; j < n; j++) {
      Col c;
      c.lo = 0;
      c.up = t.chance(1, 6) ? PINF() : Q(1 + (long)t.below(4));
      c.obj = Q((long)t.below(10));
      m.cols.push_back(c);
    }
    for (int i = 0; i < mm; i++) {
      Row r;
      for (int j = 0; j < n; j++) { long a = (long)t.below(10); if (a && !t.chance(1, 3)) r.a[j] = Q(a); }
      if (r.a.empty()) r.a[(int)t.below((uint32_t)n)] = 1;
      r.sense = cover ? 'G' : 'L';
      r.rhs = Q((long)t.below(cover ? 10 : 30));
      m.rows.push_back(r);
    }
    out.family += cover ? "/cover" : "/packing";
    break;
  }
  case F_DUP: {
    // Duplicated (and negated / doubled) rows and duplicated columns with unit coefficients, every bound shape;
    // optimal by construction.  With o.minn >= 400 the LP is wide enough for the sparse crash basis, which
    // happily puts two columns on two identical rows: the singular-basis repair path.
    m = Model();
    m.objsense = t.coin() ? -1 : 1;
    bool wide = o.minn >= 400 || o.minm >= 200;
    bool old_extend = t.extend;
    if (wide) t.extend = true;          // hundreds of columns: do not degenerate when the sized tape runs out
    int n = wide ? 400 + (int)t.below(120) : 4 + (int)t.below((uint32_t)std::max(1, std::min(o.maxn, 12) - 3));
    int mm = wide ? 16 + (int)t.below(50) : 2 + (int)t.below((uint32_t)std::max(1, std::min(o.maxm, 8) - 1));
    for (int j = 0; j < n; j++) {
      Col c;
      switch (t.below(10)) {
      case 0: case 1: case 2: case 3: c.lo = 0; c.up = PINF(); break;
      case 4: case 5: c.lo = NINF(); c.up = Q((long)t.below(9)); break;              // upper bound only
      case 6: case 7: c.lo = Q(-(long)t.below(4)); c.up = Q(1 + (long)t.below(6)); break;
      case 8: c.lo = NINF(); c.up = PINF(); break;
      default: c.lo = c.up = Q((long)t.below(7) - 3); break;
      }
      m.cols.push_back(c);
    }
    int base = std::max(1, mm / 2);
    for (int i = 0; i < mm; i++) {
      Row r;
      if (i < base) {
        int k = 2 + (int)t.below(4);
        for (int e = 0; e < k; e++) r.a[(int)t.below((uint32_t)n)] = t.chance(1, 5) ? Q(2) : (t.coin() ? Q(1) : Q(-1));
      } else {
        r = m.rows[t.below((uint32_t)i)];
        int how = (int)t.below(4);
        if (how == 1) for (auto &kv : r.a) kv.second = -kv.second;
        if (how == 2) for (auto &kv : r.a) kv.second *= 2;
      }
      m.rows.push_back(r);
    }
    // duplicate a few columns: wherever column a occurs, column b gets the same coefficient
    for (int q = 0; q < 1 + mm / 4; q++) {
      int a = (int)t.below((uint32_t)n), b = (int)t.below((uint32_t)n);
      if (a == b) continue;
      for (auto &r : m.rows) { auto it = r.a.find(a); r.a.erase(b); if (it != r.a.end()) r.a[b] = it->second; }
      if (t.coin()) { m.cols[b].lo = m.cols[a].lo; m.cols[b].up = m.cols[a].up; }
    }
    make_optimal(t, m, 0, (int)t.below(6), out);
    out.family += wide ? "/wide" : "/small";
    t.extend = old_extend;
    break;
  }
  case F_FIXB: {
    // A primal feasible, degenerate starting vertex whose only blocking basic variable is a FIXED structural
    // column (basic in an equality row); the suggested warm-start basis is returned in hint_cs/hint_rs.  The
    // entering column is improving and no other row contains it, so a ratio test that overlooks the fixed
    // basic variable sees an unbounded ray although the LP has a finite optimum.
    m = Model();
    bool maxi = t.coin();
    m.objsense = maxi ? -1 : 1;
    int n = 3 + (int)t.below((uint32_t)std::max(1, std::min(o.maxn, 6) - 2));
    int mm = 1 + (int)t.below((uint32_t)std::max(1, std::min(o.maxm, 5)));
    int fi = (int)t.below((uint32_t)n), e = (int)t.below((uint32_t)n);
    if (e == fi) e = (fi + 1) % n;
    std::vector<Q> at(n);
    std::string cs(n, '0'), rs(mm, '1');
    for (int j = 0; j < n; j++) {
      Col c;
      if (j == fi) { c.lo = c.up = t.chance(1, 4) ? Q(0) : gen_num(t, 1); at[j] = c.lo; cs[j] = '1'; }
      else if (j == e) { c.lo = t.coin() ? Q(0) : gen_num(t, 1); c.up = t.chance(1, 3) ? Q(c.lo + abs(gen_nz(t, 1)) + 1000) : PINF(); at[j] = c.lo; cs[j] = '0'; }
      else { Q a = gen_num(t, 1), b = Q(a + abs(gen_nz(t, 1))); c.lo = a; c.up = b; bool up = t.coin(); at[j] = up ? b : a; cs[j] = up ? '2' : '0'; }
      m.cols.push_back(c);
    }
    Row r0;
    r0.sense = 'E';
    r0.a[fi] = gen_nz(t, 1);
    r0.a[e] = gen_nz(t, 1);
    for (int j = 0; j < n; j++) if (j != fi && j != e && t.chance(1, 2)) r0.a[j] = gen_nz(t, 1);
    r0.rhs = 0;
    for (auto &kv : r0.a) r0.rhs += kv.second * at[kv.first];
    rs[0] = '0';
    m.rows.push_back(r0);
    for (int i = 1; i < mm; i++) {
      Row r;
      for (int j = 0; j < n; j++) if (j != e && j != fi && t.chance(1, 2)) r.a[j] = gen_nz(t, 1);
      Q act = 0;
      for (auto &kv : r.a) act += kv.second * at[kv.first];
      r.sense = t.coin() ? 'L' : 'G';
      Q gapq = abs(gen_nz(t, 1));
      r.rhs = r.sense == 'L' ? Q(act + gapq) : Q(act - gapq);   // strictly slack: logical basic
      m.rows.push_back(r);
    }
    // internal (min form) costs: c_f random, so pi_0 = c_f / a_f ; the entering column gets a negative reduced cost
    Q cf = t.chance(1, 2) ? Q(0) : gen_num(t, 1);
    Q pi0 = cf / r0.a[fi];
    for (int j = 0; j < n; j++) {
      Q c;
      if (j == fi) c = cf;
      else if (j == e) c = pi0 * r0.a[e] - abs(gen_nz(t, 1));
      else c = gen_num(t, 1);
      m.cols[j].obj = maxi ? -c : c;
    }
    out.hint_cs = cs;
    out.hint_rs = rs;
    out.family += "/fixed-basic-blocker";
    break;
  }
  default: {   // F_SHAPE: structural corner cases
    m = Model();
    m.objsense = t.coin() ? -1 : 1;
    int kind = (int)t.below(7);
    int n = 1 + (int)t.below((uint32_t)std::min(o.maxn, 5));
    for (int j = 0; j < n; j++) {
      Col c;
      switch (t.below(6)) {
      case 0: c.lo = 0; c.up = PINF(); break;
      case 1: c.lo = NINF(); c.up = PINF(); break;
      case 2: c.lo = c.up = gen_num(t, 1); break;                       // fixed
      case 3: c.lo = NINF(); c.up = -abs(gen_nz(t, 1)); break;          // negative upper
      case 4: c.lo = -abs(gen_nz(t, 1)); c.up = abs(gen_nz(t, 1)); break;
      default: c.lo = gen_num(t, 1); c.up = PINF(); break;
      }
      c.obj = t.chance(1, 4) ? Q(0) : gen_num(t, 1);
      m.cols.push_back(c);
    }
    int mm = kind == 0 ? 0 : 1 + (int)t.below((uint32_t)std::min(o.maxm, 4));
    for (int i = 0; i < mm; i++) {
      Row r;
      if (kind == 1 || (kind == 2 && t.coin())) { /* empty row */ }
      else rand_row(t, n, 1, n, r);
      r.sense = kind == 3 ? 'E' : (kind == 4 ? 'R' : "LGER"[t.below(4)]);
      r.rhs = (kind == 1 && t.coin()) ? Q(0) : gen_num(t, 1);
      r.range = r.sense == 'R' ? (t.chance(1, 3) ? Q(0) : abs(gen_num(t, 1))) : Q(0);
      m.rows.push_back(r);
    }
    out.family += strprintf("/k%d", kind);
    break;
  }
  }
  name_all(m);
}

void gen_lp(Tape &t, const GenOpts &o, GenLP &out) {
  // weights: opt 5, ill 3, face 2, inf 3, unb 1, cyc 1, shape 2, rand 2  (an exhausted tape gives F-opt)
  static const int fam[] = {F_OPT, F_OPT, F_OPT, F_ILL, F_INF, F_FACE, F_SHAPE, F_RAND, F_OPT, F_ILL, F_INF, F_FACE,
                            F_SHAPE, F_RAND, F_UNB, F_CYC, F_OPT, F_ILL, F_INF, F_FIXB, F_COVER, F_COVER};
  gen_lp_family(t, o, fam[t.below(sizeof fam / sizeof fam[0])], out);
}

}  // namespace qsx

// qsx_gen.cpp -- constructive, labelled LP generators driven by the choice tape
#include "qsx.hpp"

namespace qsx {

static Q small_int(Tape &t) { return Q((long)t.below(11) - 5); }

Q gen_num(Tape &t, int big) {
  // pool index 0 (tape exhausted / shrunk) gives small integers
  int pool = big == 0 ? 0 : (int)t.below(big >= 2 ? 10 : 6);
  switch (pool) {
  case 0: case 1: return small_int(t);
  case 2: {   // small fractions
    long d = 1 + (long)t.below(12);
    return Q((long)t.below(41) - 20, d);
  }
  case 3: {   // decimal-looking values not representable in binary
    static const char *dec[] = {"1/10", "1/3", "2/3", "1/100", "7/10", "123/1000", "1/7", "22/7", "355/113", "999999/1000000"};
    Q v(dec[t.below(10)]);
    return t.coin() ? v : -v;
  }
  case 4: return Q((long)t.below(2001) - 1000);
  case 5: {   // awkward denominators: primes near 2^31 and 2^61-1
    static const char *pr[] = {"2147483647", "2147483629", "2305843009213693951", "4294967291", "1000000007"};
    Q v;
    v = Q((long)t.below(1000) + 1) / Q(pr[t.below(5)]);
    v.canonicalize();
    return t.coin() ? v : -v;
  }
  case 6: {   // powers of two, both directions
    int k = (int)t.below(120) - 60;
    Q v = qpow2(k) * Q((long)t.below(7) + 1);
    return t.coin() ? v : -v;
  }
  case 7: {   // big magnitudes 2^+-k, k up to 300
    int k = (int)t.below(601) - 300;
    Q v = qpow2(k);
    return t.coin() ? v : -v;
  }
  case 8: {   // values differing by a relative 2^-60 from a simple one
    Q base = Q((long)t.below(9) + 1);
    Q v = base * (Q(1) + qpow2(-60) * Q((long)t.below(5) - 2));
    return t.coin() ? v : -v;
  }
  default: {  // huge numerator / denominator
    Q a(1), b(1);
    for (int k = 0; k < 4; k++) { a = a * Q((long)t.u32() + 1); b = b * Q((long)t.u32() + 1); }
    Q v = a / b;
    return t.coin() ? v : -v;
  }
  }
}
Q gen_nz(Tape &t, int big) {
  for (int k = 0; k < 4; k++) {
    Q v = gen_num(t, big);
    if (v != 0) return v;
  }
  return Q(1);
}
std::string gen_name(Tape &t, const char *prefix, int idx) {
  return std::string(prefix) + std::to_string(idx);
}

}  // namespace qsx

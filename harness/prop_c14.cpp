// C14 -- a basis file reads back as the same basis; writing does not consume the basis
#include "qsx.hpp"

namespace qsx {

QSbasis *make_basis(const std::string &cstat, const std::string &rstat);
void gen_basis(Tape &t, const Model &m, std::string &cstat, std::string &rstat);

static void c14_gen(Tape &t, Case &c) {
  GenOpts go;
  go.maxm = 1 + (int)t.below(7); go.maxn = 1 + (int)t.below(7); go.bigness = 1;
  GenLP g;
  static const int fam[] = {F_OPT, F_OPT, F_RAND, F_SHAPE, F_FACE, F_ILL, F_OPT};
  gen_lp_family(t, go, fam[t.below(7)], g);
  c.add_model(g.m);
  c.ops.push_back(Op("route").I(t.below(R_NROUTES)));
  Op b("basis");
  int kind = (int)t.below(4);              // 0 from an exact solve, 1/2 arbitrary type-correct, 3 derived from the pre-solve's basis
  b.I(kind);
  { std::string cs, rs; gen_basis(t, g.m, cs, rs); b.S(cs).S(rs); }       // (kind 0 ignores it; kind 3 falls back to it)
  b.I(t.below(64)).I(t.below(64));
  c.ops.push_back(b);
  Op how("how");
  how.I(t.below(4)).I(t.below(5)).I(kind == 3 ? 1 + (int)t.below(2) : (int)t.below(3));   // write mode, follow-up, solved before loading (no/primal/dual)
  c.ops.push_back(how);
}

static bool same_basis_upto_free(const Model &m, const std::string &c1, const std::string &r1, const std::string &c2, const std::string &r2, std::string *why) {
  for (int j = 0; j < m.n(); j++) {
    if (c1[j] == c2[j]) continue;
    bool freecol = is_ninf(m.cols[j].lo) && is_pinf(m.cols[j].up);
    bool nb1 = c1[j] == '0' || c1[j] == '3', nb2 = c2[j] == '0' || c2[j] == '3';
    if (freecol && nb1 && nb2) continue;     // non-basic free column: LOWER and FREE mean the same
    *why = strprintf("column %d '%s': status %c became %c", j, m.cols[j].name.c_str(), c1[j], c2[j]);
    return false;
  }
  for (int i = 0; i < m.m(); i++)
    if (r1[i] != r2[i]) { *why = strprintf("row %d '%s' (%c): status %c became %c", i, m.rows[i].name.c_str(), m.rows[i].sense, r1[i], r2[i]); return false; }
  return true;
}

static void c14_run(const Case &c, Result &r) {
  size_t pos = 0;
  Model m;
  if (!model_from_ops(c.ops, pos, m)) { r.verdict = DISCARD; return; }
  int route = 0;
  if (pos < c.ops.size() && c.ops[pos].k == "route") route = (int)c.ops[pos++].i[0];
  if (pos + 1 >= c.ops.size() || c.ops[pos].k != "basis" || c.ops[pos + 1].k != "how") { r.verdict = DISCARD; return; }
  const Op &bo = c.ops[pos], &ho = c.ops[pos + 1];
  int mode = (int)ho.i[0] & 3, follow = (int)ho.i[1] % 5;
  std::string why;
  mpq_QSprob p = sut_build(m, route, &why);
  if (!p) { r.fail("build:" + why, why); return; }
  std::string cs, rs;
  if (bo.i[0] == 0) {
    QSbasis *B = (QSbasis *)calloc(1, sizeof(QSbasis));
    QArr x(m.n() + m.m()), y(m.m());
    int st = 0;
    int rv = QSexact_solver(p, x.v, y.v, B, DUAL_SIMPLEX, &st);
    QSexact_set_precision(128);
    if (rv || st != QS_LP_OPTIMAL || B->nstruct != m.n() || B->nrows != m.m()) { mpq_QSfree_basis(B); mpq_QSfree_prob(p); r.verdict = DISCARD; return; }
    cs.assign(B->cstat, B->nstruct);
    rs.assign(B->rstat, B->nrows);
    mpq_QSfree_basis(B);
    r.label("basis:optimal");
  } else {
    if (bo.s.size() < 2 || (int)bo.s[0].size() != m.n() || (int)bo.s[1].size() != m.m()) { mpq_QSfree_prob(p); r.verdict = DISCARD; return; }
    cs = bo.s[0]; rs = bo.s[1];
    r.label("basis:arbitrary");
    // in two thirds of these cases the problem has been solved before (the simplex structure then holds another
    // basis than the one loaded below)
    int pre = ho.i.size() > 2 ? (int)ho.i[2] % 3 : 0;
    if (pre) {
      int st = 0;
      mpq_QSset_param(p, QS_PARAM_SIMPLEX_MAX_ITERATIONS, 500);
      if (pre == 1) mpq_QSopt_primal(p, &st); else mpq_QSopt_dual(p, &st);
      r.label(std::string("solved-before-load:") + (st == QS_LP_OPTIMAL ? "OPTIMAL" : "other"));
      if (bo.i[0] == 3 && bo.i.size() > 2) {
        // a basis that differs from the one the solver just left only in its ROW statuses: a basic and a
        // non-basic row change places, or a ranged row moves to its other side
        std::string c0((size_t)m.n(), '?'), r0((size_t)m.m(), '?');
        if (mpq_QSget_basis_array(p, &c0[0], &r0[0]) == 0) {
          std::vector<int> bas, nb, rg;
          for (int i = 0; i < m.m(); i++) { (r0[i] == '1' ? bas : nb).push_back(i); if (r0[i] != '1' && m.rows[i].sense == 'R') rg.push_back(i); }
          bool changed = false;
          if (!bas.empty() && !nb.empty() && (rg.empty() || bo.i[1] % 2 == 0)) {
            int i1 = bas[bo.i[1] % (long)bas.size()], i2 = nb[bo.i[2] % (long)nb.size()];
            std::swap(r0[i1], r0[i2]);
            if (r0[i1] == '2' && m.rows[i1].sense != 'R') r0[i1] = '0';
            changed = true;
          } else if (!rg.empty()) {
            int i1 = rg[bo.i[2] % (long)rg.size()];
            r0[i1] = r0[i1] == '0' ? '2' : '0';
            changed = true;
          }
          if (changed) { cs = c0; rs = r0; r.label("basis:derived-row-statuses-only"); }
        }
      }
    }
  }
  // a valid basis uses FREE only for columns without finite bounds; a basis that the solver hands back
  // with FREE on a bounded column is C12's subject (the file format has no code for it)
  for (int j = 0; j < m.n(); j++)
    if (cs[j] == '3' && !(is_ninf(m.cols[j].lo) && is_pinf(m.cols[j].up))) {
      mpq_QSfree_prob(p);
      r.label("discard:solver-basis-has-FREE-on-bounded-column");
      r.verdict = DISCARD;
      return;
    }
  bool has_upper_row = rs.find('2') != std::string::npos, has_free_nb = false, has_basic_struct = cs.find('1') != std::string::npos, has_nb_row = false;
  for (int j = 0; j < m.n(); j++) if (cs[j] == '3') has_free_nb = true;
  for (int i = 0; i < m.m(); i++) if (rs[i] != '1') has_nb_row = true;
  if (has_upper_row) r.label("ranged-row-at-upper");
  if (has_free_nb) r.label("free-nonbasic-column");
  static const char *mn[] = {"explicit-basis", "own-basis", "explicit-gz", "own-gz"};
  r.label(std::string("write:") + mn[mode]);
  std::string file = (mode & 2) ? "b.bas.gz" : "b.bas";
  QSbasis *B = make_basis(cs, rs);
  QSbasis *B2 = nullptr;
  do {
    int rc;
    if (mode & 1) {
      if (mpq_QSload_basis(p, B)) { r.fail("load-valid-basis-failed", "QSload_basis rejected a valid basis cstat=" + cs + " rstat=" + rs); break; }
      rc = mpq_QSwrite_basis(p, nullptr, file.c_str());
    } else rc = mpq_QSwrite_basis(p, B, file.c_str());
    if (rc) { r.fail("write-basis-failed", strprintf("QSwrite_basis returned %d for a valid basis cstat=%s rstat=%s", rc, cs.c_str(), rs.c_str())); break; }
    if (mode & 1) {
      // writing the problem's own basis must leave it in place
      std::string c2(m.n(), '?'), r2(m.m(), '?');
      if (mpq_QSget_basis_array(p, &c2[0], &r2[0])) { r.fail("own-basis-gone-after-write", "QSget_basis_array fails after QSwrite_basis(p, NULL, file)"); break; }
      if (c2 != cs || r2 != rs) { r.fail("own-basis-changed-by-write", "basis after writing: " + c2 + "/" + r2 + " before: " + cs + "/" + rs); break; }
    }
    B2 = mpq_QSread_basis(p, file.c_str());
    if (!B2) {
      bool ok;
      r.fail("own-basis-file-rejected", "QSread_basis rejects the file QSwrite_basis produced for cstat=" + cs + " rstat=" + rs + "\nlog: " + g_logbuf.substr(0, 500) + "\n---\n" + ((mode & 2) ? "(gz)" : read_file(file, &ok).substr(0, 800)));
      break;
    }
    if (B2->nstruct != m.n() || B2->nrows != m.m()) { r.fail("reread-basis-size", "re-read basis has the wrong dimensions"); break; }
    std::string c3(B2->cstat, B2->nstruct), r3(B2->rstat, B2->nrows);
    if (!same_basis_upto_free(m, cs, rs, c3, r3, &why)) {
      bool ok;
      r.fail("basis-roundtrip-differs", why + "\nwritten cstat=" + cs + " rstat=" + rs + "\nre-read cstat=" + c3 + " rstat=" + r3 + "\n---\n" + ((mode & 2) ? "(gz)" : read_file(file, &ok).substr(0, 800)));
      break;
    }
    BasisEval e1, e2;
    basis_eval(m, cs, rs, e1);
    basis_eval(m, c3, r3, e2);
    if (e1.singular != e2.singular || (!e1.singular && e1.x != e2.x)) { r.fail("basic-solution-differs", "the re-read basis has another basic solution"); break; }
    r.label(e1.singular ? "singular-basis" : "nonsingular-basis");
    // follow-ups on the same problem
    if (follow == 1) {   // write again, read again
      if (mpq_QSwrite_basis(p, (mode & 1) ? nullptr : B, "again.bas")) { r.fail("second-write-failed", "second QSwrite_basis failed"); break; }
      QSbasis *B3 = mpq_QSread_basis(p, "again.bas");
      if (!B3) { r.fail("second-write-unreadable", "second basis file not readable"); break; }
      mpq_QSfree_basis(B3);
      r.label("followup:write-again");
    } else if (follow >= 2) {
      // loading the re-read basis and solving = loading the original and solving (twin problem never wrote a file)
      mpq_QSprob twin = sut_build(m, route, &why);
      if (!twin) break;
      int st1 = 0, st2 = 0;
      Q v1, v2;
      mpq_QSset_param(p, QS_PARAM_SIMPLEX_MAX_ITERATIONS, 2000);
      mpq_QSset_param(twin, QS_PARAM_SIMPLEX_MAX_ITERATIONS, 2000);
      int l1 = follow == 2 ? mpq_QSload_basis(p, B2) : mpq_QSread_and_load_basis(p, file.c_str());
      int l2 = mpq_QSload_basis(twin, B);
      if (follow == 4 && m.m() > 0) {   // an edit between loading and solving
        Q nr = m.rows[0].rhs + 1;
        mpq_QSchange_rhscoef(p, 0, nr.get_mpq_t());
        mpq_QSchange_rhscoef(twin, 0, nr.get_mpq_t());
      }
      bool use_primal = follow == 3 && ((m.n() * 3 + m.m()) % 2 == 0);   // read-and-load is followed by either solver
      int r1 = use_primal ? mpq_QSopt_primal(p, &st1) : mpq_QSopt_dual(p, &st1);
      int r2 = use_primal ? mpq_QSopt_primal(twin, &st2) : mpq_QSopt_dual(twin, &st2);
      if (r.verdict == PASS && l1 == 0 && r1 == 0 && st1 == QS_LP_OPTIMAL) {
        // what the object now reports as its basis must go with what it reports as its solution
        std::string c9((size_t)m.n(), '?'), r9((size_t)m.m(), '?');
        Model mnow = m;
        if (follow == 4 && m.m() > 0) mnow.rows[0].rhs = m.rows[0].rhs + 1;
        QArr x9(m.n() + 1);
        if (mpq_QSget_basis_array(p, &c9[0], &r9[0]) == 0 && mpq_QSget_x_array(p, x9.v) == 0) {
          BasisEval e9;
          basis_eval(mnow, c9, r9, e9);
          if (!e9.singular) {
            bool same = true;
            for (int j = 0; j < m.n(); j++) if (e9.x[j] != x9.get(j)) same = false;
            if (!same) r.fail("followup-basis-vs-solution", "after loading the basis from the file and solving, the reported basis " + c9 + "/" + r9 + " is not the basis of the reported x");
            else if (!e9.pfeas || !e9.dfeas) r.label("followup:reported-basis-not-optimal");
            else r.label("followup:basis-and-solution-consistent");
          }
        }
      }
      if (r.verdict != PASS) { mpq_QSfree_prob(twin); break; }
      if (l1 != l2 || r1 != r2 || st1 != st2) r.fail("followup-differs:status", strprintf("after the file round trip: load %d solve %d status %d; without it: load %d solve %d status %d", l1, r1, st1, l2, r2, st2));
      else if (st1 == QS_LP_OPTIMAL) {
        mpq_QSget_objval(p, qp(v1));
        mpq_QSget_objval(twin, qp(v2));
        if (v1 != v2) r.fail("followup-differs:value", "optimal values differ after the basis file round trip");
      }
      mpq_QSfree_prob(twin);
      r.label("followup:load-and-solve");
    }
  } while (0);
  if (B2) mpq_QSfree_basis(B2);
  mpq_QSfree_basis(B);
  mpq_QSfree_prob(p);
  r.nontrivial = has_basic_struct && has_nb_row;
  r.sample = c.str().substr(0, 1500);
}

void register_c14() { register_property({"C14", "", c14_gen, c14_run, 4, 120, false}); }

}  // namespace qsx

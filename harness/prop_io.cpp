// C08 C09 C10 -- file formats: writer/reader round trips and denotation of independent text
#include "qsx_io.hpp"

namespace qsx {

// ---------------------------------------------------------------- C10
static void c10_gen_lp(Tape &t, Case &c) {
  Model m;
  int big = (int)t.below(3);
  gen_file_model(t, m, false, true, 6, 6, big);
  if (t.chance(1, 5)) m.rows[t.below((uint32_t)m.m())].name = "";   // unnamed constraint
  EmitStats st;
  std::string text = emit_lp(t, m, st);
  c.add_model(m);
  Op f("file");
  f.S("LP").S(text);
  for (auto &x : st.features) f.S(x);
  c.ops.push_back(f);
}
static void c10_gen_mps(Tape &t, Case &c) {
  Model m;
  int big = (int)t.below(3);
  gen_file_model(t, m, true, true, 6, 6, big);
  EmitStats st;
  std::string text = emit_mps(t, m, st);
  c.add_model(m);
  Op f("file");
  f.S("MPS").S(text);
  for (auto &x : st.features) f.S(x);
  c.ops.push_back(f);
}

static void c10_run(const Case &c, Result &r) {
  size_t pos = 0;
  Model m;
  if (!model_from_ops(c.ops, pos, m)) { r.verdict = DISCARD; return; }
  if (pos >= c.ops.size() || c.ops[pos].k != "file" || c.ops[pos].s.size() < 2) { r.verdict = DISCARD; return; }
  const Op &f = c.ops[pos];
  std::string type = f.s[0], text = f.s[1];
  for (size_t k = 2; k < f.s.size(); k++) r.label("feature:" + f.s[k]);
  ReadResult rr;
  sut_read_text(text, type.c_str(), true, rr);
  if (!rr.p) {
    std::string errs;
    for (auto &e : rr.errors) errs += e + " | ";
    // signature: first error message without numbers
    std::string first = rr.errors.empty() ? "no message" : rr.errors[0];
    std::string key;
    for (char ch : first) { if (isdigit((unsigned char)ch)) continue; key += ch == ' ' ? '-' : ch; if (key.size() > 50) break; }
    r.fail("valid-file-rejected:" + type + ":" + key, "syntactically valid " + type + " text rejected: " + errs + "\n---\n" + text.substr(0, 1500));
    return;
  }
  Model got;
  std::string why;
  if (!sut_dump(rr.p, got, &why, false)) { r.fail("dump-inconsistent:read", why); mpq_QSfree_prob(rr.p); return; }
  EquivOpts eo;
  eo.allow_range_split = false;
  eo.drop_empty_rows = false;
  eo.by_interval = true;
  eo.match_rows_by_name = true;
  for (auto &row : m.rows) if (row.name.empty()) eo.match_rows_by_name = false;
  if (!model_equiv(m, got, eo, &why)) {
    std::string key = why.substr(0, why.find(':') == std::string::npos ? 30 : why.find(':'));
    std::string k2;
    for (char ch : why) { if (ch == '\'') break; k2 += ch == ' ' ? '-' : ch; }
    r.fail("misread:" + type + ":" + k2.substr(0, 40), type + " text read as a different problem: " + why + "\n---\n" + text.substr(0, 1800));
  }
  mpq_QSfree_prob(rr.p);
  r.nontrivial = f.s.size() - 2 >= 3;
  r.sample = text.substr(0, 1500);
  (void)pos;
}

// ---------------------------------------------------------------- C08 / C09
// case: model, "io" op: [source route 0 api / 1 via MPS text (keeps integer marks)], target, awkward-name plan
static void awkward_names(Tape &t, Model &m, bool for_mps) {
  static const char *bad_lp[] = {"2x", "a b", "x*y", "c[1]", "9", ".dot", "x^2", "na<me", "MIN", "free", "inf", "st", "x_1", "c_1", "obj", "e9", "E-24", "end"};
  static const char *bad_mps[] = {"2x", "x*y", "c[1]", "9", ".dot", "x^2", "MIN", "free", "RHS", "ROWS", "x_1", "c_1", "obj", "e9", "RANGES", "BOUND"};
  // two names whose repairs meet: a name that is replaced by its index (illegal character / reserved word) and a
  // digit-leading name spelling that very index -- both repairs ask for "<prefix><index>" -- optionally with the
  // generated name itself already taken by a third entry
  if (t.chance(1, 3)) {
    static const char *idx_bad[] = {"x*y", "c[1]", "a b", "free", "inf", "na<me"};
    bool row = t.coin();
    int cnt = row ? m.m() : m.n();
    if (cnt >= 2) {
      int j = (int)t.below((uint32_t)cnt), k2 = (int)t.below((uint32_t)cnt - 1);
      if (k2 >= j) k2++;
      std::string bad = idx_bad[t.below(for_mps ? 2 : 6)], digits = std::to_string(j);
      std::string taken = std::string(row ? "c" : "x") + digits;
      bool third = cnt >= 3 && t.coin();
      auto has = [&](const std::string &nm) { return row ? m.rowindex(nm) >= 0 : m.colindex(nm) >= 0; };
      if (!has(bad) && !has(digits) && !has(taken)) {
        if (row) { m.rows[j].name = bad; m.rows[k2].name = digits; } else { m.cols[j].name = bad; m.cols[k2].name = digits; }
        if (third) { int k3 = 0; while (k3 == j || k3 == k2) k3++; if (row) m.rows[k3].name = taken; else m.cols[k3].name = taken; }
      }
    }
  }
  int k = (int)t.below(4);
  for (int s = 0; s < k; s++) {
    bool row = t.coin();
    const char *nm = for_mps ? bad_mps[t.below(16)] : bad_lp[t.below(18)];
    if (row) {
      if (m.rowindex(nm) >= 0) continue;
      m.rows[t.below((uint32_t)m.m())].name = nm;
    } else {
      if (m.colindex(nm) >= 0) continue;
      m.cols[t.below((uint32_t)m.n())].name = nm;
    }
  }
}

static void roundtrip_gen(Tape &t, Case &c, bool mps) {
  Model m;
  int big = (int)t.below(3);
  bool viatext = t.chance(1, 3);
  gen_file_model(t, m, true, viatext, t.chance(1, 8) ? 30 : 6, t.chance(1, 8) ? 30 : 6, big);
  if (!viatext && t.chance(1, 3)) awkward_names(t, m, mps);
  if (t.chance(1, 6)) { Row e; e.name = "emptyrow"; e.sense = 'L'; e.rhs = 3; m.rows.push_back(e); }   // dropped by the writers
  c.add_model(m);
  Op o("io");
  o.I(viatext ? 1 : (int)t.below(R_NROUTES) + 10).I(t.below(4)).I(t.below(4));   // source, target kind, follow-up
  if (viatext) { EmitStats st; Tape none; o.S(emit_mps(none, m, st)); }
  c.ops.push_back(o);
}
static void c08_gen(Tape &t, Case &c) { roundtrip_gen(t, c, false); }
static void c09_gen(Tape &t, Case &c) { roundtrip_gen(t, c, true); }

static mpq_QSprob source_problem(const Model &m, const Op &o, Result &r, std::string *why) {
  int src = (int)o.i[0];
  if (src == 1) {
    if (o.s.empty()) return nullptr;
    ReadResult rr;
    sut_read_text(o.s[0], "MPS", false, rr);
    if (!rr.p) { *why = "harness MPS text rejected"; return nullptr; }
    r.label("source:text");
    return rr.p;
  }
  r.label("source:api");
  return sut_build(m, (src - 10) % R_NROUTES, why);
}

static bool solve_value(mpq_QSprob p, int &status, Q &value) {
  int n = mpq_QSget_colcount(p), mm = mpq_QSget_rowcount(p);
  QArr x(n + mm), y(mm);
  status = 0;
  int rv = QSexact_solver(p, x.v, y.v, nullptr, DUAL_SIMPLEX, &status);
  QSexact_set_precision(128);
  if (rv) return false;
  if (status == QS_LP_OPTIMAL) return mpq_QSget_objval(p, qp(value)) == 0;
  return true;
}

static void roundtrip_run(const Case &c, Result &r, const char *type) {
  size_t pos = 0;
  Model m;
  if (!model_from_ops(c.ops, pos, m)) { r.verdict = DISCARD; return; }
  if (pos >= c.ops.size() || c.ops[pos].k != "io" || c.ops[pos].i.size() < 3) { r.verdict = DISCARD; return; }
  const Op &o = c.ops[pos];
  bool lp = type[0] == 'L';
  std::string why;
  mpq_QSprob p = source_problem(m, o, r, &why);
  if (!p) { r.verdict = INCONCLUSIVE; r.msg = "source problem could not be built: " + why; return; }
  int target = (int)o.i[1] & 3, follow = (int)o.i[2] & 3;
  static const char *tn[] = {"plain", "gz", "bz2", "FILE*"};
  r.label(std::string("target:") + tn[target]);
  size_t logmark = g_logbuf.size();
  std::string path;
  mpq_QSprob q = nullptr, q2 = nullptr;
  do {
    if (!sut_write_file(p, type, target, path, &why)) { r.fail(std::string("write-failed:") + type, why + "\nlog: " + g_logbuf.substr(logmark, 500)); break; }
    std::map<std::string, std::vector<std::string>> ren = rename_notices(logmark);
    if (!ren.empty()) r.label("names-repaired");
    q = sut_read_file(path, type);
    if (!q) {
      bool ok = false;
      std::string text = target == 0 || target == 3 ? read_file(path, &ok) : "(compressed)";
      r.fail(std::string("own-output-rejected:") + type, std::string("the reader rejects what the ") + type + " writer produced\nlog: " + g_logbuf.substr(logmark, 700) + "\n---\n" + text.substr(0, 1500));
      break;
    }
    Model got;
    if (!sut_dump(q, got, &why, false)) { r.fail("dump-inconsistent:reread", why); break; }
    EquivOpts eo;
    eo.allow_range_split = lp;
    eo.drop_empty_rows = true;
    eo.by_interval = false;
    // notices do not say whether a row or a column was renamed: offer them to both
    eo.col_renames = ren;
    eo.row_renames = ren;
    if (!model_equiv(m, got, eo, &why)) {
      bool ok = false;
      std::string text = target == 0 || target == 3 ? read_file(path, &ok) : "(compressed)";
      std::string k2;
      for (char ch : why) { if (ch == '\'') break; k2 += ch == ' ' ? '-' : ch; }
      r.fail(std::string("roundtrip:") + type + ":" + k2.substr(0, 40), std::string(type) + " write/read round trip changed the problem: " + why + "\n---\n" + text.substr(0, 1800));
      break;
    }
    // follow-ups
    if (follow == 1) {   // idempotence of the writer on its own output
      std::string path2;
      if (!sut_write_file(q, type, 0, path2, &why)) { r.fail(std::string("rewrite-failed:") + type, why); break; }
      std::string path1b;
      if (target != 0) { if (!sut_write_file(p, type, 0, path1b, &why)) break; } else path1b = path;
      q2 = sut_read_file(path2, type);
      if (!q2) { r.fail(std::string("second-generation-rejected:") + type, "write(read(write(p))) is not readable"); break; }
      Model got2;
      if (!sut_dump(q2, got2, &why, false)) { r.fail("dump-inconsistent:reread2", why); break; }
      EquivOpts e2;
      e2.allow_range_split = false; e2.drop_empty_rows = true;
      if (!model_equiv(got, got2, e2, &why)) { r.fail(std::string("second-generation-differs:") + type, "reading the re-written file gives another problem: " + why); break; }
      r.label("followup:second-generation");
    } else if (follow == 2 && m.n() + m.m() <= 24) {   // same status and optimal value
      int s1 = 0, s2 = 0;
      Q v1, v2;
      bool o1 = solve_value(p, s1, v1), o2 = solve_value(q, s2, v2);
      // "the same status": the definitive classification of the LP; a non-definitive answer (UNSOLVED, a limit)
      // on either side is a completeness matter for ill-scaled data (C03), not a difference between the problems
      auto definitive = [](int st) { return st == QS_LP_OPTIMAL || st == QS_LP_INFEASIBLE || st == QS_LP_UNBOUNDED; };
      if (o1 && o2 && (!definitive(s1) || !definitive(s2))) r.label("followup:solve-nondefinitive");
      else if (o1 && o2 && (s1 != s2 || (s1 == QS_LP_OPTIMAL && v1 != v2)))
        r.fail(std::string("roundtrip-solve-differs:") + type, strprintf("original status %d value %s, re-read status %d value %s", s1, qstr(v1).c_str(), s2, qstr(v2).c_str()));
      r.label("followup:solve");
    } else if (follow == 3) {   // the other format from the re-read problem, and back (chains LP->MPS->LP, MPS->LP->MPS)
      const char *other = lp ? "MPS" : "LP";
      std::string path2, path3;
      size_t mark2 = g_logbuf.size();
      if (!sut_write_file(q, other, 0, path2, &why)) { r.fail(std::string("chain-write-failed:") + other, why); break; }
      std::map<std::string, std::vector<std::string>> ren2 = rename_notices(mark2);
      q2 = sut_read_file(path2, other);
      if (!q2) { bool ok; r.fail(std::string("chain-rejected:") + type + "->" + other, "conversion output not readable\n" + read_file(path2, &ok).substr(0, 1200)); break; }
      Model got2;
      if (!sut_dump(q2, got2, &why, false)) { r.fail("dump-inconsistent:chain", why); break; }
      EquivOpts e2;
      e2.allow_range_split = true; e2.drop_empty_rows = true;
      e2.col_renames = ren2; e2.row_renames = ren2;
      if (!model_equiv(got, got2, e2, &why)) { bool ok; r.fail(std::string("chain-differs:") + type + "->" + other, "conversion changed the problem: " + why + "\n---\n" + read_file(path2, &ok).substr(0, 1500)); break; }
      r.label(std::string("followup:chain-") + type + "->" + other);
    }
  } while (0);
  if (q2) mpq_QSfree_prob(q2);
  if (q) mpq_QSfree_prob(q);
  mpq_QSfree_prob(p);
  bool hasR = false, nondefb = false, fracs = false, longrow = false;
  for (auto &row : m.rows) { if (row.sense == 'R') hasR = true; if (row.a.size() >= 8) longrow = true; for (auto &kv : row.a) if (kv.second.get_den() != 1) fracs = true; }
  for (auto &col : m.cols) if (col.lo != 0 || !is_pinf(col.up)) nondefb = true;
  if (hasR) r.label("has:ranged-row");
  if (longrow) r.label("has:long-row");
  r.nontrivial = hasR || nondefb || fracs || longrow;
  r.sample = c.str().substr(0, 2000);
}
static void c08_run(const Case &c, Result &r) { roundtrip_run(c, r, "LP"); }
static void c09_run(const Case &c, Result &r) { roundtrip_run(c, r, "MPS"); }

void register_io() {
  register_property({"C10", "lp", c10_gen_lp, c10_run, 6, 60, false});
  register_property({"C10", "mps", c10_gen_mps, c10_run, 6, 60, false});
  register_property({"C08", "", c08_gen, c08_run, 6, 120, false});
  register_property({"C09", "", c09_gen, c09_run, 6, 120, false});
}

}  // namespace qsx

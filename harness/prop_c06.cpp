// C06 -- query functions reflect exactly the edits made (model conformance)
#include "qsx.hpp"
#include "qsx_ops.hpp"

namespace qsx {

// small random starting model (no solver relevance; data only)
void gen_start_model(Tape &t, int maxm, int maxn, int big, bool allow_range, Model &m) {
  m = Model();
  m.objsense = t.coin() ? -1 : 1;
  int n = (int)t.below((uint32_t)maxn + 1), mm = (int)t.below((uint32_t)maxm + 1);
  bool nullnames = t.chance(1, 6);
  for (int j = 0; j < n; j++) {
    Col c;
    c.name = nullnames ? "" : "v" + std::to_string(j);
    c.obj = gen_num(t, big);
    switch (t.below(5)) {
    case 0: c.lo = 0; c.up = PINF(); break;
    case 1: c.lo = NINF(); c.up = PINF(); break;
    case 2: c.lo = gen_num(t, big); c.up = PINF(); break;
    case 3: c.lo = NINF(); c.up = gen_num(t, big); break;
    default: { Q a = gen_num(t, big), b = gen_num(t, big); c.lo = a < b ? a : b; c.up = a < b ? b : a; }
    }
    m.cols.push_back(c);
  }
  for (int i = 0; i < mm; i++) {
    Row r;
    r.name = nullnames ? "" : "r" + std::to_string(i);
    r.sense = "LGER"[t.below(allow_range ? 4 : 3)];
    r.rhs = gen_num(t, big);
    r.range = r.sense == 'R' ? abs(gen_num(t, big)) : Q(0);
    if (n > 0) {
      int k = (int)t.below((uint32_t)std::min(n, 6) + 1);
      for (int c = 0; c < k; c++) r.a[(int)t.below((uint32_t)n)] = gen_nz(t, big);
    }
    m.rows.push_back(r);
  }
}

static void c06_gen_common(Tape &t, Case &c, bool bulkmode) {
  Model m;
  EditGen g;
  int big = (int)t.below(3);
  g.bigness = big;
  if (bulkmode) {
    g.maxm = 420; g.maxn = 620; g.bulk = 150; g.maxrowlen = 60; g.maxdel = 40;
    gen_start_model(t, 6, 6, big, true, m);
  } else {
    g.maxm = 14; g.maxn = 14; g.bulk = 4; g.maxrowlen = 6; g.maxdel = 4;
    gen_start_model(t, 5, 5, big, true, m);
  }
  // integer marks exist only on reader-made objects (route R_FILE over the harness's own MPS text); the runner
  // drops the marks when that route cannot be taken for this model
  bool ints = m.n() > 0 && t.chance(1, 6);
  if (ints) { bool any = false; for (auto &col : m.cols) if (t.coin()) { col.isint = true; any = true; } if (!any) m.cols[0].isint = true; }
  // give placeholder names to unnamed start entries for the generator's own bookkeeping
  Model gm = m;
  for (int j = 0; j < gm.n(); j++) if (gm.cols[j].name.empty()) gm.cols[j].name = "\x01s" + std::to_string(j);
  for (int i = 0; i < gm.m(); i++) if (gm.rows[i].name.empty()) gm.rows[i].name = "\x01t" + std::to_string(i);
  c.add_model(m);
  c.ops.push_back(Op("route").I(ints ? (long)R_FILE : (long)t.below(R_NROUTES)));
  int len = bulkmode ? 4 + (int)t.below(40) : 1 + (int)t.below(30);
  int unk = 0;
  int growth = bulkmode ? 2 + (int)t.below(3) : 0;   // bulk mode opens with big multi-row/column adds
  for (int s = 0; s < len; s++) {
    Op o;
    if (t.exhausted() && s >= growth) break;   // a shrunk tape ends the history instead of padding it
    if (s < growth) {
      g.force_bulk = true; g.bulk_min = 55; g.bulk = 150; g.minrowlen = (s == 0) ? 1 : 8;
      bool okg = gen_edit(t, gm, g, o, (s % 2 == 0) ? 4 : 1);
      g.force_bulk = false; g.bulk_min = 1; g.bulk = 12; g.minrowlen = 1;
      if (!okg) continue;
    } else if (!gen_edit(t, gm, g, o)) continue;
    std::vector<std::pair<int, int>> unnamed;
    model_apply(gm, o, &unnamed);
    for (auto &u : unnamed) {
      std::string ph = "\x01u" + std::to_string(unk++);
      if (u.first == 0) gm.rows[u.second].name = ph; else gm.cols[u.second].name = ph;
    }
    c.ops.push_back(o);
    if (t.chance(1, 12)) c.ops.push_back(Op("solve").I(t.below(3)));   // solves must not change data
  }
}
static void c06_gen(Tape &t, Case &c) { c06_gen_common(t, c, false); }
static void c06_gen_bulk(Tape &t, Case &c) { c06_gen_common(t, c, true); }
void c06_gen_bulk_public(Tape &t, Case &c) { c06_gen_common(t, c, true); }
void c06_gen_public(Tape &t, Case &c) { c06_gen_common(t, c, false); }

static bool has_dup_name(const Model &m, const Op &o) {
  bool rows = o.k == "newrow" || o.k == "addrows";
  bool cols = o.k == "newcol" || o.k == "addcols";
  if (!rows && !cols) return false;
  std::set<std::string> seen;
  for (auto &s : o.s) {
    if (s.empty()) continue;
    if (!seen.insert(s).second) return true;
    if (rows ? m.rowindex(s) >= 0 : m.colindex(s) >= 0) return true;
  }
  return false;
}

void c06_run(const Case &c, Result &r) {
  size_t pos = 0;
  Model m;
  if (!model_from_ops(c.ops, pos, m)) { r.verdict = DISCARD; return; }
  int route = 0;
  if (pos < c.ops.size() && c.ops[pos].k == "route") route = (int)c.ops[pos++].i[0];
  std::string why;
  mpq_QSprob p = sut_build(m, route, &why);
  if (!p) { r.fail("build:" + why, "building a valid start problem failed: " + why); return; }
  r.label("route" + std::to_string(route));
  {
    bool want_int = false;
    for (auto &col : m.cols) want_int |= col.isint;
    if (!g_built_via_file) for (auto &col : m.cols) col.isint = false;
    if (want_int) r.label(g_built_via_file ? "start:integer-marks" : "start:integer-marks-dropped");
  }
  Model d;
  if (!sut_dump(p, d, &why)) { r.fail("dump-inconsistent:start", why); mpq_QSfree_prob(p); return; }
  // adopt names the library invented for the start problem
  {
    std::set<std::string> sc, sr;
    for (int j = 0; j < m.n() && j < d.n(); j++) if (m.cols[j].name.empty()) m.cols[j].name = d.cols[j].name;
    for (int i = 0; i < m.m() && i < d.m(); i++) if (m.rows[i].name.empty()) m.rows[i].name = d.rows[i].name;
    for (auto &cc : m.cols) if (cc.name.empty() || !sc.insert(cc.name).second) { r.fail("invented-name:start", "empty or duplicate invented column name"); }
    for (auto &rr : m.rows) if (rr.name.empty() || !sr.insert(rr.name).second) { r.fail("invented-name:start", "empty or duplicate invented row name"); }
  }
  if (r.verdict == PASS && !model_equal(m, d, &why)) r.fail("model-mismatch:start", "after build via route " + std::to_string(route) + ": " + why);
  bool added = false, del_after_add = false;
  int maxm = m.m(), maxn = m.n(), maxnz = m.nnz();
  int nedits = 0;
  for (; pos < c.ops.size() && r.verdict == PASS; pos++) {
    const Op &o = c.ops[pos];
    if (o.k == "solve") {
      int st = 0;
      int which = o.i.empty() ? 0 : (int)o.i[0];
      QSexact_set_precision(128);   // each solve starts from the default precision (see C17 for the global)
      mpq_QSset_param(p, QS_PARAM_SIMPLEX_MAX_ITERATIONS, 300);
      if (which == 0) mpq_QSopt_primal(p, &st);
      else if (which == 1) mpq_QSopt_dual(p, &st);
      else { QArr x(m.n() + m.m()), y(m.m()); QSexact_solver(p, x.v, y.v, nullptr, DUAL_SIMPLEX, &st); }
      r.label("solve-interleaved");
    } else {
      if (has_dup_name(m, o)) {
        // an explicit name collides with one the library invented earlier: not a valid edit,
        // the history stops here
        // (rejection of the duplicate and atomicity of the failed call are C07's subject)
        r.label("dup-name-stop");
        break;
      }
      Model before = m;
      std::vector<std::pair<int, int>> unnamed;
      if (!model_apply(m, o, &unnamed)) { r.verdict = DISCARD; break; }
      int rc = sut_apply(p, o, before);
      nedits++;
      r.label("op:" + o.k + (o.i.empty() ? "" : (o.k == "delrows" || o.k == "delcols" || o.k == "addrows" || o.k == "addcols" ? "/v" + std::to_string(o.i[0]) : "")));
      if (rc != 0) { r.fail("valid-edit-rejected:" + o.k, strprintf("valid edit returned %d: ", rc) + o.str() + "\nlog: " + g_logbuf.substr(0, 400)); break; }
      if (!adopt_names(p, m, unnamed, &why)) { r.fail("invented-name:" + o.k, why + " after " + o.str()); break; }
      if (o.k == "newrow" || o.k == "addrows" || o.k == "newcol" || o.k == "addcols") added = true;
      if ((o.k == "delrows" || o.k == "delcols") && added) del_after_add = true;
    }
    if (!sut_dump(p, d, &why)) { r.fail("dump-inconsistent:" + o.k, "after " + o.str() + ": " + why); break; }
    if (!model_equal(m, d, &why)) { r.fail("model-mismatch:" + o.k, "after " + o.str() + ": " + why); break; }
    maxm = std::max(maxm, m.m()); maxn = std::max(maxn, m.n()); maxnz = std::max(maxnz, m.nnz());
  }
  mpq_QSfree_prob(p);
  if (maxm > 100) r.label("crossed:100rows");
  if (maxn > 100) r.label("crossed:100cols");
  if (maxnz > 1000) r.label("crossed:1000nz");
  if (del_after_add) r.label("delete-after-add");
  r.nontrivial = del_after_add || maxm > 100 || maxn > 100 || maxnz > 1000;
  r.sample = c.str().substr(0, 3000);
}

void register_c06() {
  register_property({"C06", "", c06_gen, c06_run, 3, 60, false});
  register_property({"C06", "bulk", c06_gen_bulk, c06_run, 6, 120, false});
}

}  // namespace qsx

/* qsx_shim.c -- C side helpers: the library's array macros use GNU statement
 * expressions and `register`, which C++17 rejects; they are wrapped here. */
#ifdef HAVE_CONFIG_H
#include "config.h"
#endif
#include <stdio.h>
#include <stdlib.h>
#include <gmp.h>
#include "QSopt_ex.h"
#include "logging-private.h"	/* EXIT(), needed by the public allocation macros */

mpq_t *qsx_mpq_alloc (int n) { return mpq_EGlpNumAllocArray (n); }
void qsx_mpq_free (mpq_t * a) { mpq_EGlpNumFreeArray (a); }
size_t qsx_mpq_size (mpq_t * a) { return __EGlpNumArraySize (a); }
double *qsx_dbl_alloc (int n) { return dbl_EGlpNumAllocArray (n); }
void qsx_dbl_free (double *a) { dbl_EGlpNumFreeArray (a); }
mpf_t *qsx_mpf_alloc (int n) { return mpf_EGlpNumAllocArray (n); }
void qsx_mpf_free (mpf_t * a) { mpf_EGlpNumFreeArray (a); }
unsigned long qsx_precision (void) { return EGLPNUM_PRECISION; }
const char *qsx_guard (void)
{
#ifdef QSOPT_EX_VERIF
	return "on";
#else
	return "off";
#endif
}

/* ---- component level access to the sparse LU code (C13) ---- */
typedef struct { mpq_factor_work f; int dim; } qsx_lu;

void *qsx_lu_new (int dim)
{
	qsx_lu *h = (qsx_lu *) malloc (sizeof (qsx_lu));
	mpq_EGlpNumInitVar (h->f.fzero_tol);
	mpq_EGlpNumInitVar (h->f.szero_tol);
	mpq_EGlpNumInitVar (h->f.partial_tol);
	mpq_EGlpNumInitVar (h->f.maxelem_orig);
	mpq_EGlpNumInitVar (h->f.maxelem_factor);
	mpq_EGlpNumInitVar (h->f.maxelem_cur);
	mpq_EGlpNumInitVar (h->f.partial_cur);
	mpq_ILLfactor_init_factor_work (&h->f);
	h->dim = dim;
	if (mpq_ILLfactor_create_factor_work (&h->f, dim)) { free (h); return 0; }
	return h;
}
void qsx_lu_free (void *vh)
{
	qsx_lu *h = (qsx_lu *) vh;
	if (!h) return;
	mpq_ILLfactor_free_factor_work (&h->f);
	mpq_EGlpNumClearVar (h->f.fzero_tol);
	mpq_EGlpNumClearVar (h->f.szero_tol);
	mpq_EGlpNumClearVar (h->f.partial_tol);
	mpq_EGlpNumClearVar (h->f.maxelem_orig);
	mpq_EGlpNumClearVar (h->f.maxelem_factor);
	mpq_EGlpNumClearVar (h->f.maxelem_cur);
	mpq_EGlpNumClearVar (h->f.partial_cur);
	free (h);
}
int qsx_lu_set_iparam (void *vh, int param, int val)
{
	return mpq_ILLfactor_set_factor_iparam (&((qsx_lu *) vh)->f, param, val);
}
int qsx_lu_factor (void *vh, int ncols, int *cbeg, int *clen, int *cind, mpq_t * cval, int *basis, int *nsing)
{
	qsx_lu *h = (qsx_lu *) vh;
	int *singr = 0, *singc = 0, rval;
	(void) ncols;
	*nsing = 0;
	rval = mpq_ILLfactor (&h->f, basis, cbeg, clen, cind, cval, nsing, &singr, &singc);
	free (singr);
	free (singc);
	return rval;
}
static int qsx_lu_solve (qsx_lu * h, int nz, int *ind, mpq_t * val, mpq_t * out, int which)
{
	mpq_svector a, x;
	int i, rval = 0;
	mpq_ILLsvector_init (&a);
	mpq_ILLsvector_init (&x);
	rval = mpq_ILLsvector_alloc (&a, h->dim) || mpq_ILLsvector_alloc (&x, h->dim);
	if (rval) goto CLEANUP;
	for (i = 0; i < nz; i++) { a.indx[i] = ind[i]; mpq_set (a.coef[i], val[i]); }
	a.nzcnt = nz;
	if (which == 0) mpq_ILLfactor_ftran (&h->f, &a, &x);
	else mpq_ILLfactor_btran (&h->f, &a, &x);
	for (i = 0; i < h->dim; i++) mpq_set_ui (out[i], 0UL, 1UL);
	for (i = 0; i < x.nzcnt; i++)
	{
		if (x.indx[i] < 0 || x.indx[i] >= h->dim) { rval = 77; goto CLEANUP; }
		mpq_set (out[x.indx[i]], x.coef[i]);
	}
CLEANUP:
	mpq_ILLsvector_free (&a);
	mpq_ILLsvector_free (&x);
	return rval;
}
int qsx_lu_ftran (void *vh, int nz, int *ind, mpq_t * val, mpq_t * out) { return qsx_lu_solve ((qsx_lu *) vh, nz, ind, val, out, 0); }
int qsx_lu_btran (void *vh, int nz, int *ind, mpq_t * val, mpq_t * out) { return qsx_lu_solve ((qsx_lu *) vh, nz, ind, val, out, 1); }
/* replace the column at 'position' of the basis by the given column, following basis.c: ftran_update
 * saves the spike, ILLfactor_update inserts it */
int qsx_lu_update (void *vh, int nz, int *ind, mpq_t * val, int position, int *refactor)
{
	qsx_lu *h = (qsx_lu *) vh;
	mpq_svector a, upd, x;
	int i, rval = 0;
	mpq_ILLsvector_init (&a);
	mpq_ILLsvector_init (&upd);
	mpq_ILLsvector_init (&x);
	*refactor = 0;
	rval = mpq_ILLsvector_alloc (&a, h->dim) || mpq_ILLsvector_alloc (&upd, h->dim) || mpq_ILLsvector_alloc (&x, h->dim);
	if (rval) { rval = -1; goto CLEANUP; }
	for (i = 0; i < nz; i++) { a.indx[i] = ind[i]; mpq_set (a.coef[i], val[i]); }
	a.nzcnt = nz;
	mpq_ILLfactor_ftran_update (&h->f, &a, &upd, &x);
	rval = mpq_ILLfactor_update (&h->f, &upd, position, refactor);
CLEANUP:
	mpq_ILLsvector_free (&a);
	mpq_ILLsvector_free (&upd);
	mpq_ILLsvector_free (&x);
	return rval;
}

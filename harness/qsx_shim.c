/* qsx_shim.c -- C side helpers: the library's array macros use GNU statement
 * expressions and `register`, which C++17 rejects; they are wrapped here. */
#ifdef HAVE_CONFIG_H
#include "config.h"
#endif
#include <stdio.h>
#include <stdlib.h>
#include <gmp.h>
#include "QSopt_ex.h"
#include "logging-private.h"	/* EXIT(), needed by the public allocation macros */

mpq_t *qsx_mpq_alloc (int n) { return mpq_EGlpNumAllocArray (n); }
void qsx_mpq_free (mpq_t * a) { mpq_EGlpNumFreeArray (a); }
size_t qsx_mpq_size (mpq_t * a) { return __EGlpNumArraySize (a); }
double *qsx_dbl_alloc (int n) { return dbl_EGlpNumAllocArray (n); }
void qsx_dbl_free (double *a) { dbl_EGlpNumFreeArray (a); }
mpf_t *qsx_mpf_alloc (int n) { return mpf_EGlpNumAllocArray (n); }
void qsx_mpf_free (mpf_t * a) { mpf_EGlpNumFreeArray (a); }
unsigned long qsx_precision (void) { return EGLPNUM_PRECISION; }
const char *qsx_guard (void)
{
#ifdef QSOPT_EX_VERIF
	return "on";
#else
	return "off";
#endif
}

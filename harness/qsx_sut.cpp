// qsx_sut.cpp -- everything that touches the library under test
#include "qsx.hpp"
#include "qsx_io.hpp"
#include <unistd.h>

extern "C" {
mpq_t *qsx_mpq_alloc(int n);
void qsx_mpq_free(mpq_t *a);
size_t qsx_mpq_size(mpq_t *a);
}

namespace qsx {

std::string g_logbuf;
long g_logcalls = 0;
static void log_handler(const char *msg, void *) {
  g_logcalls++;
  if (g_logbuf.size() < (1u << 20)) {
    g_logbuf += msg ? msg : "<NULL>";
    g_logbuf += "\n";
  }
}

void sut_global_init() {
  static bool done = false;
  if (done) return;
  done = true;
  QSexactStart();
  QSlog_set_handler(log_handler, nullptr);
  QSexact_set_precision(128);
}
void sut_case_reset() {
  g_logbuf.clear();
  g_logcalls = 0;
  QSexact_set_precision(128);
}

QArr::QArr(int n_) : n(n_) {
  v = (mpq_t *)malloc(sizeof(mpq_t) * (size_t)(n > 0 ? n : 1));
  for (int i = 0; i < n; i++) mpq_init(v[i]);
}
QArr::~QArr() {
  for (int i = 0; i < n; i++) mpq_clear(v[i]);
  free(v);
}

static const char *cstr_or_null(const std::string &s) { return s.empty() ? nullptr : s.c_str(); }

// column-major arrays of a model
struct ColMajor {
  std::vector<int> cnt, beg, ind;
  std::vector<Q> val;
  ColMajor(const Model &m, int from = 0) {
    int n = m.n();
    std::vector<std::vector<std::pair<int, Q>>> cols(n);
    for (int i = 0; i < m.m(); i++)
      for (auto &kv : m.rows[i].a) cols[kv.first].push_back({i, kv.second});
    for (int j = from; j < n; j++) {
      beg.push_back((int)ind.size());
      cnt.push_back((int)cols[j].size());
      for (auto &e : cols[j]) { ind.push_back(e.first); val.push_back(e.second); }
    }
  }
};

// objects that come out of the file readers differ internally from API-built ones (arrays sized exactly, a
// row-major copy of the matrix attached): build, write as MPS, read back, and keep the result only if it
// dumps as the very same model (otherwise the API-built object is used)
bool g_built_via_file = false;
static mpq_QSprob via_file(const Model &m, std::string *err) {
  bool every_col_used = true, named = !m.name.empty(), anyint = false;
  std::vector<bool> used(m.n(), false);
  for (auto &r : m.rows) { if (r.a.empty()) return nullptr; if (r.name.empty()) named = false; for (auto &kv : r.a) used[kv.first] = true; }
  for (int j = 0; j < m.n(); j++) { if (m.cols[j].obj != 0) used[j] = true; if (!used[j]) every_col_used = false; if (m.cols[j].name.empty()) named = false; if (m.cols[j].isint) anyint = true; }
  if (!every_col_used || !named || m.n() == 0 || m.m() == 0) return nullptr;
  if (anyint) {
    // integer marks cannot be set through the API: the object is read from MPS text written by the harness's own
    // emitter (plainest lexical choices: an empty tape), and kept only if it dumps as the very same model
    Tape t0;
    EmitStats st;
    std::string path = scratch_dir() + "/route_int.mps";
    if (!write_file(path, emit_mps(t0, m, st))) return nullptr;
    mpq_QSprob p = mpq_QSread_prob(path.c_str(), "MPS");
    unlink(path.c_str());
    if (!p) return nullptr;
    Model got;
    std::string why;
    if (!sut_dump(p, got, &why, false) || !model_equal(m, got, &why)) { mpq_QSfree_prob(p); return nullptr; }
    return p;
  }
  mpq_QSprob p0 = sut_build(m, R_BULK, err);
  if (!p0) return nullptr;
  std::string path = scratch_dir() + "/route.mps";
  int wrc = mpq_QSwrite_prob(p0, path.c_str(), "MPS");
  mpq_QSfree_prob(p0);
  if (wrc) return nullptr;
  mpq_QSprob p = mpq_QSread_prob(path.c_str(), "MPS");
  unlink(path.c_str());
  if (!p) return nullptr;
  Model got;
  std::string why;
  if (!sut_dump(p, got, &why, false) || !model_equal(m, got, &why)) { mpq_QSfree_prob(p); return nullptr; }
  return p;
}

mpq_QSprob sut_build(const Model &m, int route, std::string *err) {
  int n = m.n(), mm = m.m();
  mpq_QSprob p = nullptr;
  g_built_via_file = false;
  if (route == R_FILE) {
    p = via_file(m, err);
    if (p) { g_built_via_file = true; return p; }
    route = R_COLS_ROWS;
  }
  auto E = [&](const std::string &s) -> mpq_QSprob {
    if (err) *err = s;
    if (p) mpq_QSfree_prob(p);
    return nullptr;
  };
  bool has_range = false;
  for (auto &r : m.rows) if (r.sense == 'R') has_range = true;
  if (route == R_LOAD && has_range) route = R_BULK;   // QSload_prob has no range argument
  if (route == R_LOAD) {
    ColMajor cm(m);
    QArr val((int)cm.val.size()), obj(n), rhs(mm), lo(n), up(n);
    for (size_t k = 0; k < cm.val.size(); k++) val.set((int)k, cm.val[k]);
    std::vector<const char *> cn(n), rn(mm);
    std::vector<char> sense(mm + 1);
    for (int j = 0; j < n; j++) {
      obj.set(j, m.cols[j].obj); lo.set(j, m.cols[j].lo); up.set(j, m.cols[j].up);
      cn[j] = cstr_or_null(m.cols[j].name);
    }
    for (int i = 0; i < mm; i++) {
      rhs.set(i, m.rows[i].rhs); sense[i] = m.rows[i].sense;
      rn[i] = cstr_or_null(m.rows[i].name);
    }
    p = mpq_QSload_prob(m.name.c_str(), n, mm, cm.cnt.data(), cm.beg.data(), cm.ind.data(), val.v,
                        m.objsense, obj.v, rhs.v, sense.data(), lo.v, up.v, cn.data(), rn.data());
    if (!p) return E("QSload_prob returned NULL");
    return p;
  }
  p = mpq_QScreate_prob(m.name.c_str(), m.objsense);
  if (!p) return E("QScreate_prob returned NULL");
  if (route == R_COLS_ROWS) {
    for (int j = 0; j < n; j++) {
      const Col &c = m.cols[j];
      if (mpq_QSnew_col(p, c.obj.get_mpq_t(), c.lo.get_mpq_t(), c.up.get_mpq_t(), cstr_or_null(c.name)))
        return E("QSnew_col failed");
    }
    for (int i = 0; i < mm; i++) {
      const Row &r = m.rows[i];
      int k = (int)r.a.size();
      std::vector<int> ind;
      QArr val(k);
      int t = 0;
      for (auto &kv : r.a) { ind.push_back(kv.first); val.set(t++, kv.second); }
      int rv;
      if (r.sense == 'R')
        rv = mpq_QSadd_ranged_row(p, k, ind.data(), val.v, (const mpq_t *)r.rhs.get_mpq_t(),
                                  r.sense, (const mpq_t *)r.range.get_mpq_t(), cstr_or_null(r.name));
      else
        rv = mpq_QSadd_row(p, k, ind.data(), val.v, (const mpq_t *)r.rhs.get_mpq_t(), r.sense, cstr_or_null(r.name));
      if (rv) return E("QSadd_row failed");
    }
    return p;
  }
  if (route == R_ROWS_COLS) {
    for (int i = 0; i < mm; i++) {
      const Row &r = m.rows[i];
      int rv;
      if (r.sense == 'R') {
        rv = mpq_QSadd_ranged_row(p, 0, nullptr, nullptr, (const mpq_t *)r.rhs.get_mpq_t(), 'R',
                                  (const mpq_t *)r.range.get_mpq_t(), cstr_or_null(r.name));
      } else
        rv = mpq_QSnew_row(p, r.rhs.get_mpq_t(), r.sense, cstr_or_null(r.name));
      if (rv) return E("QSnew_row failed");
    }
    ColMajor cm(m);
    for (int j = 0; j < n; j++) {
      const Col &c = m.cols[j];
      int k = cm.cnt[j];
      QArr val(k);
      for (int t = 0; t < k; t++) val.set(t, cm.val[cm.beg[j] + t]);
      Q obj = c.obj, lo = c.lo, up = c.up;
      if (mpq_QSadd_col(p, k, cm.ind.data() + cm.beg[j], val.v, obj.get_mpq_t(), lo.get_mpq_t(), up.get_mpq_t(),
                        cstr_or_null(c.name)))
        return E("QSadd_col failed");
    }
    return p;
  }
  // R_BULK: empty rows via add_ranged_rows, then all columns via add_cols
  {
    std::vector<int> rcnt(mm, 0), rbeg(mm, 0);
    QArr rhs(mm), rng(mm);
    std::vector<char> sense(mm + 1);
    std::vector<const char *> rn(mm);
    for (int i = 0; i < mm; i++) {
      rhs.set(i, m.rows[i].rhs);
      // the range entry of a row that is not ranged is ignored by the library: hand it something non-zero
      rng.set(i, m.rows[i].sense == 'R' ? m.rows[i].range : Q(7 + i, 3));
      sense[i] = m.rows[i].sense;
      rn[i] = cstr_or_null(m.rows[i].name);
    }
    if (mm && mpq_QSadd_ranged_rows(p, mm, rcnt.data(), rbeg.data(), nullptr, nullptr, rhs.v, sense.data(), rng.v, rn.data()))
      return E("QSadd_ranged_rows failed");
    ColMajor cm(m);
    QArr val((int)cm.val.size()), obj(n), lo(n), up(n);
    for (size_t k = 0; k < cm.val.size(); k++) val.set((int)k, cm.val[k]);
    std::vector<const char *> cn(n);
    for (int j = 0; j < n; j++) {
      obj.set(j, m.cols[j].obj); lo.set(j, m.cols[j].lo); up.set(j, m.cols[j].up);
      cn[j] = cstr_or_null(m.cols[j].name);
    }
    if (n && mpq_QSadd_cols(p, n, cm.cnt.data(), cm.beg.data(), cm.ind.data(), val.v, obj.v, lo.v, up.v, cn.data()))
      return E("QSadd_cols failed");
  }
  return p;
}

// ---------------------------------------------------------------- dump
static void free_names(char **names, int n) {
  if (!names) return;
  for (int i = 0; i < n; i++) mpq_QSfree(names[i]);
  mpq_QSfree(names);
}

bool sut_dump(mpq_QSprob p, Model &out, std::string *why, bool deep) {
  out = Model();
  bool ok = true;
  std::string w;
  auto W = [&](const std::string &s) { if (ok) { ok = false; w = s; } };
  int n = mpq_QSget_colcount(p), m = mpq_QSget_rowcount(p), nz = mpq_QSget_nzcount(p);
  int os = 0;
  if (mpq_QSget_objsense(p, &os)) W("QSget_objsense failed");
  out.objsense = os;
  const char *pn = mpq_QSget_probname(p);
  out.name = pn ? pn : "";
  mpq_QSfree((void *)pn);
  out.cols.resize(n);
  out.rows.resize(m);
  // ---- route 1: columns
  int *ccnt = 0, *cbeg = 0, *cind = 0;
  mpq_t *cval = 0, *cobj = 0, *clo = 0, *cup = 0;
  char **cnames = 0;
  if (mpq_QSget_columns(p, &ccnt, &cbeg, &cind, &cval, &cobj, &clo, &cup, &cnames)) W("QSget_columns failed");
  int stored = 0;
  if (ok && n > 0) {
    if (!ccnt || !cbeg || !cobj || !clo || !cup || !cnames) W("QSget_columns returned NULL arrays");
    else
      for (int j = 0; j < n && ok; j++) {
        Col &c = out.cols[j];
        c.obj = Q(cobj[j]); c.lo = Q(clo[j]); c.up = Q(cup[j]);
        c.name = cnames[j] ? cnames[j] : "";
        if (ccnt[j] < 0) { W("negative column count"); break; }
        for (int k = cbeg[j]; k < cbeg[j] + ccnt[j]; k++) {
          int i = cind[k];
          stored++;
          if (i < 0 || i >= m) { W(strprintf("QSget_columns: row index %d out of range in col %d", i, j)); break; }
          Q v(cval[k]);
          if (out.rows[i].a.count(j)) { W(strprintf("QSget_columns: duplicate entry (%d,%d)", i, j)); break; }
          if (v != 0) out.rows[i].a[j] = v;
        }
      }
  }
  if (ok && nz != stored) W(strprintf("QSget_nzcount=%d but QSget_columns lists %d entries", nz, stored));
  // ---- route 2: rows
  int *rcnt = 0, *rbeg = 0, *rind = 0;
  mpq_t *rval = 0, *rrhs = 0, *rrange = 0;
  char *rsense = 0;
  char **rnames = 0;
  if (mpq_QSget_ranged_rows(p, &rcnt, &rbeg, &rind, &rval, &rrhs, &rsense, &rrange, &rnames)) W("QSget_ranged_rows failed");
  if (ok && m > 0) {
    if (!rcnt || !rbeg || !rrhs || !rsense || !rrange || !rnames) W("QSget_ranged_rows returned NULL arrays");
    else
      for (int i = 0; i < m && ok; i++) {
        Row &r = out.rows[i];
        r.rhs = Q(rrhs[i]); r.sense = rsense[i]; r.range = Q(rrange[i]);
        r.name = rnames[i] ? rnames[i] : "";
        std::map<int, Q> a;
        for (int k = rbeg[i]; k < rbeg[i] + rcnt[i]; k++) {
          int j = rind[k];
          if (j < 0 || j >= n) { W(strprintf("QSget_rows: col index %d out of range in row %d", j, i)); break; }
          if (a.count(j)) { W(strprintf("QSget_rows: duplicate entry (%d,%d)", i, j)); break; }
          Q v(rval[k]);
          if (v != 0) a[j] = v;
        }
        if (ok && a != r.a) W(strprintf("row %d: row-wise and column-wise extraction disagree", i));
      }
  }
  // ---- cross checks through the other accessors
  if (ok) {
    QArr obj(n), lo(n), up(n), rhs(m);
    std::vector<char> senses(m + 1);
    if (mpq_QSget_obj(p, obj.v)) W("QSget_obj failed");
    if (mpq_QSget_bounds(p, lo.v, up.v)) W("QSget_bounds failed");
    if (mpq_QSget_rhs(p, rhs.v)) W("QSget_rhs failed");
    if (mpq_QSget_senses(p, senses.data())) W("QSget_senses failed");
    for (int j = 0; j < n && ok; j++) {
      if (obj.get(j) != out.cols[j].obj) W(strprintf("QSget_obj[%d] differs from QSget_columns", j));
      if (lo.get(j) != out.cols[j].lo || up.get(j) != out.cols[j].up) W(strprintf("QSget_bounds[%d] differs from QSget_columns", j));
    }
    for (int i = 0; i < m && ok; i++) {
      if (rhs.get(i) != out.rows[i].rhs) W(strprintf("QSget_rhs[%d] differs from QSget_rows", i));
      if (senses[i] != out.rows[i].sense) W(strprintf("QSget_senses[%d] differs from QSget_rows", i));
    }
    std::vector<int> flags(n + 1, -7);
    if (mpq_QSget_intflags(p, flags.data())) W("QSget_intflags failed");
    int icount = -1, ic = 0;
    if (mpq_QSget_intcount(p, &icount)) W("QSget_intcount failed");
    for (int j = 0; j < n && ok; j++) {
      if (flags[j] != 0 && flags[j] != 1) W("QSget_intflags: value not 0/1");
      out.cols[j].isint = flags[j] == 1;
      ic += flags[j] == 1;
    }
    if (ok && ic != icount) W(strprintf("QSget_intcount=%d but %d flags set", icount, ic));
  }
  if (ok && deep) {
    // names: whole-array route and name -> index lookups in both directions
    std::vector<char *> cn(n + 1, nullptr), rn(m + 1, nullptr);
    if (n && mpq_QSget_colnames(p, cn.data())) W("QSget_colnames failed");
    if (m && mpq_QSget_rownames(p, rn.data())) W("QSget_rownames failed");
    for (int j = 0; j < n && ok; j++) {
      if (!cn[j] || out.cols[j].name != cn[j]) { W(strprintf("QSget_colnames[%d] differs", j)); break; }
      int idx = -5;
      if (mpq_QSget_column_index(p, cn[j], &idx) || idx != j)
        W(strprintf("QSget_column_index('%s') = %d, expected %d", cn[j], idx, j));
    }
    for (int i = 0; i < m && ok; i++) {
      if (!rn[i] || out.rows[i].name != rn[i]) { W(strprintf("QSget_rownames[%d] differs", i)); break; }
      int idx = -5;
      if (mpq_QSget_row_index(p, rn[i], &idx) || idx != i)
        W(strprintf("QSget_row_index('%s') = %d, expected %d", rn[i], idx, i));
    }
    for (int j = 0; j < n; j++) mpq_QSfree(cn[j]);
    for (int i = 0; i < m; i++) mpq_QSfree(rn[i]);
    // single element accessors
    Q t;
    for (int j = 0; j < n && ok; j++) {
      if (mpq_QSget_bound(p, j, 'L', qp(t)) || t != out.cols[j].lo) W(strprintf("QSget_bound(%d,L) differs", j));
      if (mpq_QSget_bound(p, j, 'U', qp(t)) || t != out.cols[j].up) W(strprintf("QSget_bound(%d,U) differs", j));
    }
    long cells = (long)n * m;
    long step = cells > 4000 ? cells / 4000 + 1 : 1;
    for (long c = 0; c < cells && ok; c += step) {
      int i = (int)(c / n), j = (int)(c % n);
      if (mpq_QSget_coef(p, i, j, (mpq_t *)t.get_mpq_t())) { W(strprintf("QSget_coef(%d,%d) failed", i, j)); break; }
      auto it = out.rows[i].a.find(j);
      Q expect = it == out.rows[i].a.end() ? Q(0) : it->second;
      if (t != expect) W(strprintf("QSget_coef(%d,%d)=%s but extraction says %s", i, j, qstr(t).c_str(), qstr(expect).c_str()));
    }
    // list variants on a deterministic sub-list (every other index, reversed)
    std::vector<int> cl, rl;
    for (int j = n - 1; j >= 0; j -= 2) cl.push_back(j);
    for (int i = m - 1; i >= 0; i -= 2) rl.push_back(i);
    if (!cl.empty() && ok) {
      int k = (int)cl.size();
      QArr o2(k), l2(k), u2(k);
      if (mpq_QSget_obj_list(p, k, cl.data(), o2.v)) W("QSget_obj_list failed");
      if (mpq_QSget_bounds_list(p, k, cl.data(), l2.v, u2.v)) W("QSget_bounds_list failed");
      for (int t2 = 0; t2 < k && ok; t2++) {
        const Col &c = out.cols[cl[t2]];
        if (o2.get(t2) != c.obj) W("QSget_obj_list differs");
        if (l2.get(t2) != c.lo || u2.get(t2) != c.up) W("QSget_bounds_list differs");
      }
      int *xcnt = 0, *xbeg = 0, *xind = 0;
      mpq_t *xval = 0, *xobj = 0, *xlo = 0, *xup = 0;
      char **xnames = 0;
      if (mpq_QSget_columns_list(p, k, cl.data(), &xcnt, &xbeg, &xind, &xval, &xobj, &xlo, &xup, &xnames)) W("QSget_columns_list failed");
      else {
        for (int t2 = 0; t2 < k && ok; t2++) {
          int j = cl[t2];
          const Col &c = out.cols[j];
          if (Q(xobj[t2]) != c.obj || Q(xlo[t2]) != c.lo || Q(xup[t2]) != c.up || c.name != xnames[t2]) W("QSget_columns_list differs (col data)");
          int cntnz = 0;
          for (int q = xbeg[t2]; q < xbeg[t2] + xcnt[t2] && ok; q++) {
            int i = xind[q];
            Q v(xval[q]);
            if (v == 0) continue;
            cntnz++;
            if (i < 0 || i >= m || !out.rows[i].a.count(j) || out.rows[i].a[j] != v) W("QSget_columns_list differs (coef)");
          }
          int expect = 0;
          for (int i = 0; i < m; i++) expect += out.rows[i].a.count(j) ? 1 : 0;
          if (ok && expect != cntnz) W("QSget_columns_list differs (count)");
        }
      }
      mpq_QSfree(xcnt); mpq_QSfree(xbeg); mpq_QSfree(xind);
      qsx_mpq_free(xval); qsx_mpq_free(xobj); qsx_mpq_free(xlo); qsx_mpq_free(xup);
      free_names(xnames, k);
    }
    if (!rl.empty() && ok) {
      int k = (int)rl.size();
      int *xcnt = 0, *xbeg = 0, *xind = 0;
      mpq_t *xval = 0, *xrhs = 0, *xrange = 0;
      char *xsense = 0;
      char **xnames = 0;
      if (mpq_QSget_ranged_rows_list(p, k, rl.data(), &xcnt, &xbeg, &xind, &xval, &xrhs, &xsense, &xrange, &xnames)) W("QSget_ranged_rows_list failed");
      else {
        for (int t2 = 0; t2 < k && ok; t2++) {
          const Row &r = out.rows[rl[t2]];
          if (Q(xrhs[t2]) != r.rhs || xsense[t2] != r.sense || Q(xrange[t2]) != r.range || r.name != xnames[t2]) W("QSget_ranged_rows_list differs (row data)");
          std::map<int, Q> a;
          for (int q = xbeg[t2]; q < xbeg[t2] + xcnt[t2]; q++) if (Q(xval[q]) != 0) a[xind[q]] = Q(xval[q]);
          if (ok && a != r.a) W("QSget_ranged_rows_list differs (coefs)");
        }
      }
      mpq_QSfree(xcnt); mpq_QSfree(xbeg); mpq_QSfree(xind); mpq_QSfree(xsense);
      qsx_mpq_free(xval); qsx_mpq_free(xrhs); qsx_mpq_free(xrange);
      free_names(xnames, k);
      // the non-ranged variant
      int *ycnt = 0, *ybeg = 0, *yind = 0;
      mpq_t *yval = 0, *yrhs = 0;
      char *ysense = 0;
      char **ynames = 0;
      if (mpq_QSget_rows(p, &ycnt, &ybeg, &yind, &yval, &yrhs, &ysense, &ynames)) W("QSget_rows failed");
      else if (m > 0) {
        for (int i = 0; i < m && ok; i++)
          if (Q(yrhs[i]) != out.rows[i].rhs || ysense[i] != out.rows[i].sense || ycnt[i] != rcnt[i]) W("QSget_rows differs from QSget_ranged_rows");
      }
      mpq_QSfree(ycnt); mpq_QSfree(ybeg); mpq_QSfree(yind); mpq_QSfree(ysense);
      qsx_mpq_free(yval); qsx_mpq_free(yrhs);
      free_names(ynames, m);
    }
  }
  mpq_QSfree(ccnt); mpq_QSfree(cbeg); mpq_QSfree(cind);
  qsx_mpq_free(cval); qsx_mpq_free(cobj); qsx_mpq_free(clo); qsx_mpq_free(cup);
  free_names(cnames, n);
  mpq_QSfree(rcnt); mpq_QSfree(rbeg); mpq_QSfree(rind); mpq_QSfree(rsense);
  qsx_mpq_free(rval); qsx_mpq_free(rrhs); qsx_mpq_free(rrange);
  free_names(rnames, m);
  if (!ok && why) *why = w;
  return ok;
}

// ---------------------------------------------------------------- solve
std::string SolveCfg::str() const {
  static const char *en[] = {"exact", "primal", "dual"};
  return strprintf("%s/algo%d/pp%d/dp%d/sc%d/disp%d/prec%d/it%d%s", en[entry % 3], algo, pprice, dprice, scaling, display, precision, itlim,
                   objlim_kind ? (objlim_kind == 1 ? "/objulim" : "/objllim") : "");
}
Op SolveCfg::op() const {
  Op o("cfg");
  o.I(entry).I(algo).I(pprice).I(dprice).I(scaling).I(display).I(precision).I(itlim).I(want_x).I(want_y).I(want_basis);
  if (objlim_kind) { o.I(objlim_kind); o.N(objlim); }
  return o;
}
SolveCfg SolveCfg::from_op(const Op &o) {
  SolveCfg c;
  auto g = [&](size_t k, long d) { return k < o.i.size() ? o.i[k] : d; };
  c.entry = (int)g(0, 0); c.algo = (int)g(1, 1); c.pprice = (int)g(2, 0); c.dprice = (int)g(3, 0);
  c.scaling = (int)g(4, -1); c.display = (int)g(5, -1); c.precision = (int)g(6, 0); c.itlim = (int)g(7, 0);
  c.want_x = g(8, 1) != 0; c.want_y = g(9, 1) != 0; c.want_basis = g(10, 0) != 0;
  c.objlim_kind = (int)g(11, 0);
  if (c.objlim_kind && !o.q.empty()) c.objlim = o.q[0]; else c.objlim_kind = 0;
  return c;
}
SolveCfg gen_cfg(Tape &t, bool allow_direct) {
  SolveCfg c;
  c.entry = allow_direct ? (int)t.below(3) : 0;
  c.algo = t.coin() ? DUAL_SIMPLEX : PRIMAL_SIMPLEX;
  static const int pp[] = {0, QS_PRICE_PDANTZIG, QS_PRICE_PDEVEX, QS_PRICE_PSTEEP, QS_PRICE_PMULTPARTIAL};
  static const int dp[] = {0, QS_PRICE_DDANTZIG, QS_PRICE_DSTEEP, QS_PRICE_DMULTPARTIAL, QS_PRICE_DDEVEX};
  c.pprice = pp[t.below(5)];
  c.dprice = dp[t.below(5)];
  c.scaling = (int)t.below(3) - 1;
  c.display = t.chance(1, 8) ? 1 : -1;
  static const int pr[] = {0, 64, 128, 192, 256, 512, 1024};
  c.precision = pr[t.below(7)];
  c.itlim = 0;
  c.want_x = !t.chance(1, 6);
  c.want_y = !t.chance(1, 6);
  return c;
}

static void apply_cfg(mpq_QSprob p, const SolveCfg &c) {
  if (c.pprice) mpq_QSset_param(p, QS_PARAM_PRIMAL_PRICING, c.pprice);
  if (c.dprice) mpq_QSset_param(p, QS_PARAM_DUAL_PRICING, c.dprice);
  if (c.scaling >= 0) mpq_QSset_param(p, QS_PARAM_SIMPLEX_SCALING, c.scaling);
  if (c.display >= 0) mpq_QSset_param(p, QS_PARAM_SIMPLEX_DISPLAY, c.display);
  if (c.objlim_kind == 1 || c.objlim_kind == 2) { Q v = c.objlim; mpq_QSset_param_EGlpNum(p, c.objlim_kind == 1 ? QS_PARAM_OBJULIM : QS_PARAM_OBJLLIM, v.get_mpq_t()); }
  if (c.itlim > 0) mpq_QSset_param(p, QS_PARAM_SIMPLEX_MAX_ITERATIONS, c.itlim);
  if (c.precision > 0) QSexact_set_precision((unsigned)c.precision);
}

void sut_solve(mpq_QSprob p, const SolveCfg &c, QSbasis *basis, Solution &out, std::vector<Q> *xfull, std::vector<Q> *y) {
  out = Solution();
  apply_cfg(p, c);
  int n = mpq_QSget_colcount(p), m = mpq_QSget_rowcount(p);
  int status = 0;
  if (c.entry == 0) {
    QArr x(n + m), yy(m);
    out.rval = QSexact_solver(p, c.want_x ? x.v : nullptr, c.want_y ? yy.v : nullptr, basis, c.algo, &status);
    out.status = status;
    if (xfull) { xfull->clear(); if (c.want_x) for (int k = 0; k < n + m; k++) xfull->push_back(x.get(k)); }
    if (y) { y->clear(); if (c.want_y) for (int k = 0; k < m; k++) y->push_back(yy.get(k)); }
  } else {
    if (basis) mpq_QSload_basis(p, basis);
    out.rval = c.entry == 1 ? mpq_QSopt_primal(p, &status) : mpq_QSopt_dual(p, &status);
    out.status = status;
  }
}

void sut_probe_accessors(mpq_QSprob p, AccessorProbe &o) {
  o = AccessorProbe();
  int n = mpq_QSget_colcount(p), m = mpq_QSget_rowcount(p);
  QArr x(n + 1), pi(m + 1), sl(m + 1), rc(n + 1);
  Q val;
  o.status_ok = mpq_QSget_status(p, &o.status) == 0;
  o.objval_ok = mpq_QSget_objval(p, qp(val)) == 0;
  if (o.objval_ok) o.objval = val;
  o.x_ok = mpq_QSget_x_array(p, x.v) == 0;
  o.pi_ok = mpq_QSget_pi_array(p, pi.v) == 0;
  o.slack_ok = mpq_QSget_slack_array(p, sl.v) == 0;
  o.rc_ok = mpq_QSget_rc_array(p, rc.v) == 0;
  if (o.x_ok) for (int j = 0; j < n; j++) o.x.push_back(x.get(j));
  if (o.rc_ok) for (int j = 0; j < n; j++) o.rc.push_back(rc.get(j));
  if (o.pi_ok) for (int i = 0; i < m; i++) o.pi.push_back(pi.get(i));
  if (o.slack_ok) for (int i = 0; i < m; i++) o.slack.push_back(sl.get(i));
  std::string cs((size_t)n + 1, '?'), rs((size_t)m + 1, '?');
  o.basis_ok = mpq_QSget_basis_array(p, &cs[0], &rs[0]) == 0;
  // named accessors and the iteration count: called for their side effects (diagnostics, crashes)
  std::vector<char *> cn((size_t)n + 1, nullptr), rn((size_t)m + 1, nullptr);
  if (n > 0 && mpq_QSget_colnames(p, cn.data()) == 0) {
    Q t;
    mpq_QSget_named_x(p, cn[0], qp(t));
    mpq_QSget_named_rc(p, cn[0], qp(t));
    for (int j = 0; j < n; j++) mpq_QSfree(cn[j]);
  }
  if (m > 0 && mpq_QSget_rownames(p, rn.data()) == 0) {
    Q t;
    mpq_QSget_named_pi(p, rn[0], qp(t));
    mpq_QSget_named_slack(p, rn[0], qp(t));
    for (int i = 0; i < m; i++) mpq_QSfree(rn[i]);
  }
  int it = 0;
  mpq_QSget_itcnt(p, &it, &it, &it, &it, &it);
  o.nfail = !o.objval_ok + !o.x_ok + !o.pi_ok + !o.slack_ok + !o.rc_ok;
}

bool sut_fetch_solution(mpq_QSprob p, Solution &s, std::string *why) {
  int n = mpq_QSget_colcount(p), m = mpq_QSget_rowcount(p);
  QArr x(n), pi(m), sl(m), rc(n);
  Q val;
  auto W = [&](const std::string &msg) { if (why) *why = msg; return false; };
  s.have = false;
  if (mpq_QSget_solution(p, qp(val), x.v, pi.v, sl.v, rc.v)) return W("QSget_solution failed");
  s.value = val;
  s.x.clear(); s.pi.clear(); s.slack.clear(); s.rc.clear();
  for (int j = 0; j < n; j++) { s.x.push_back(x.get(j)); s.rc.push_back(rc.get(j)); }
  for (int i = 0; i < m; i++) { s.pi.push_back(pi.get(i)); s.slack.push_back(sl.get(i)); }
  s.have = true;
  // the other accessors must tell the same story
  QArr x2(n), pi2(m), sl2(m), rc2(n);
  Q v2;
  if (mpq_QSget_objval(p, qp(v2))) return W("QSget_objval failed although QSget_solution succeeded");
  if (v2 != val) return W("QSget_objval differs from QSget_solution");
  if (mpq_QSget_x_array(p, x2.v)) return W("QSget_x_array failed");
  if (mpq_QSget_pi_array(p, pi2.v)) return W("QSget_pi_array failed");
  if (mpq_QSget_slack_array(p, sl2.v)) return W("QSget_slack_array failed");
  if (mpq_QSget_rc_array(p, rc2.v)) return W("QSget_rc_array failed");
  for (int j = 0; j < n; j++) {
    if (x2.get(j) != s.x[j]) return W("QSget_x_array differs from QSget_solution");
    if (rc2.get(j) != s.rc[j]) return W("QSget_rc_array differs from QSget_solution");
  }
  for (int i = 0; i < m; i++) {
    if (pi2.get(i) != s.pi[i]) return W("QSget_pi_array differs from QSget_solution");
    if (sl2.get(i) != s.slack[i]) return W("QSget_slack_array differs from QSget_solution");
  }
  // named accessors
  std::vector<char *> cn(n + 1, nullptr), rn(m + 1, nullptr);
  bool okn = true;
  if (n && mpq_QSget_colnames(p, cn.data())) okn = false;
  if (m && mpq_QSget_rownames(p, rn.data())) okn = false;
  std::string bad;
  if (okn) {
    Q t;
    for (int j = 0; j < n && bad.empty(); j++) {
      if (mpq_QSget_named_x(p, cn[j], qp(t)) || t != s.x[j]) bad = "QSget_named_x differs";
      if (mpq_QSget_named_rc(p, cn[j], qp(t)) || t != s.rc[j]) bad = "QSget_named_rc differs";
    }
    for (int i = 0; i < m && bad.empty(); i++) {
      if (mpq_QSget_named_pi(p, rn[i], qp(t)) || t != s.pi[i]) bad = "QSget_named_pi differs";
      if (mpq_QSget_named_slack(p, rn[i], qp(t)) || t != s.slack[i]) bad = "QSget_named_slack differs";
    }
  }
  for (int j = 0; j < n; j++) mpq_QSfree(cn[j]);
  for (int i = 0; i < m; i++) mpq_QSfree(rn[i]);
  if (!bad.empty()) return W(bad);
  return true;
}

}  // namespace qsx

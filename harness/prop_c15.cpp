// C15 -- equivalent formulations of an LP receive equivalent answers
#include "qsx.hpp"

namespace qsx {

struct Affine { Q scale = 1, shift = 0; };   // value_transformed = scale * value_original + shift

static void t_perm_rows(Tape &t, Model &m) { for (int i = m.m() - 1; i > 0; i--) std::swap(m.rows[i], m.rows[t.below((uint32_t)i + 1)]); }
static void t_perm_cols(Tape &t, Model &m) {
  int n = m.n();
  std::vector<int> p(n);
  for (int j = 0; j < n; j++) p[j] = j;
  for (int j = n - 1; j > 0; j--) std::swap(p[j], p[t.below((uint32_t)j + 1)]);
  // new position of old column j is p[j]
  std::vector<Col> nc(n);
  for (int j = 0; j < n; j++) nc[p[j]] = m.cols[j];
  m.cols = nc;
  for (auto &r : m.rows) { std::map<int, Q> a; for (auto &kv : r.a) a[p[kv.first]] = kv.second; r.a = a; }
}
static void scale_row(Row &r, const Q &lam) {
  for (auto &kv : r.a) kv.second *= lam;
  if (lam > 0) { r.rhs *= lam; r.range *= lam; return; }
  if (r.sense == 'R') { Q hi = r.rhs + r.range; r.rhs = lam * hi; r.range = -lam * r.range; return; }
  r.rhs *= lam;
  if (r.sense == 'L') r.sense = 'G'; else if (r.sense == 'G') r.sense = 'L';
}
static void t_scale_rows(Tape &t, Model &m, bool negative) {
  int k = 1 + (int)t.below(4);
  for (int s = 0; s < k && m.m() > 0; s++) {
    Q lam = abs(gen_nz(t, 1));
    if (negative) lam = -lam;
    scale_row(m.rows[t.below((uint32_t)m.m())], lam);
  }
}
static void t_substitute(Tape &t, Model &m, Affine &af) {
  // x_j = alpha x'_j + beta
  int k = 1 + (int)t.below(4);
  for (int s = 0; s < k; s++) {
    int j = (int)t.below((uint32_t)m.n());
    Q alpha = gen_nz(t, 1), beta = gen_num(t, 1);
    Col &c = m.cols[j];
    for (auto &r : m.rows) { auto it = r.a.find(j); if (it != r.a.end()) { r.rhs -= it->second * beta; it->second *= alpha; } }
    // objective: c x = c alpha x' + c beta ; the transformed LP has no constant, so its value is lower by c*beta
    Q sense = 1;
    af.shift -= af.scale * 0;   // (kept for clarity: constants are tracked in original units below)
    Q cb = c.obj * beta;
    c.obj *= alpha;
    // value_T = value_before - cb  (in the current, possibly negated, objective)
    af.shift -= cb;
    Q lo = c.lo, up = c.up;
    auto tr = [&](const Q &v, bool lower_side) -> Q {
      if (is_ninf(v) || is_pinf(v)) { bool toPos = (is_pinf(v)) == (alpha > 0); (void)lower_side; return toPos ? PINF() : NINF(); }
      return (v - beta) / alpha;
    };
    Q a = tr(lo, true), b = tr(up, false);
    if (alpha > 0) { c.lo = a; c.up = b; } else { c.lo = b; c.up = a; }
    (void)sense;
  }
}
static void t_negate_objective(Model &m, Affine &af) {
  for (auto &c : m.cols) c.obj = -c.obj;
  m.objsense = -m.objsense;
  af.scale = -af.scale;
  af.shift = -af.shift;
}
static void t_duplicate_row(Tape &t, Model &m) {
  if (m.m() == 0) return;
  Row r = m.rows[t.below((uint32_t)m.m())];
  r.name += "_dup" + std::to_string(m.m());
  m.rows.insert(m.rows.begin() + (int)t.below((uint32_t)m.m() + 1), r);
}
static void t_redundant_row(Tape &t, Model &m) {
  if (m.m() == 0) return;
  // relaxed copy of one row, or the sum of two rows brought to <= form
  auto as_le = [&](const Row &r, std::vector<Row> &out) {
    Row a = r;
    a.range = 0;
    if (r.sense == 'L') { out.push_back(a); }
    else if (r.sense == 'G') { a.sense = 'L'; scale_row(a, Q(-1)); a.sense = 'L'; out.push_back(a); }
    else if (r.sense == 'E') { a.sense = 'L'; out.push_back(a); }
    else { Row b = r; b.sense = 'L'; b.rhs = r.rhs + r.range; b.range = 0; out.push_back(b); }
  };
  std::vector<Row> le;
  as_le(m.rows[t.below((uint32_t)m.m())], le);
  if (t.coin()) as_le(m.rows[t.below((uint32_t)m.m())], le);
  Row nr;
  nr.sense = 'L';
  nr.rhs = abs(gen_num(t, 1));           // relaxation
  for (auto &r : le) {
    if (r.sense != 'L') continue;        // (G rows were flipped by scale_row: sense now 'L')
    Q mu = abs(gen_nz(t, 1));
    for (auto &kv : r.a) { nr.a[kv.first] += mu * kv.second; if (nr.a[kv.first] == 0) nr.a.erase(kv.first); }
    nr.rhs += mu * r.rhs;
  }
  nr.name = "redundant" + std::to_string(m.m());
  if (nr.a.empty()) return;
  m.rows.push_back(nr);
}
static void t_split_equalities(Tape &t, Model &m) {
  std::vector<Row> out;
  int id = 0;
  for (auto &r : m.rows) {
    if (r.sense == 'E' && t.coin()) {
      Row a = r, b = r;
      a.sense = 'L'; b.sense = 'G';
      b.name += "_ge" + std::to_string(id++);
      out.push_back(a); out.push_back(b);
    } else out.push_back(r);
  }
  m.rows = out;
}

static void c15_gen_common(Tape &t, Case &c, bool large) {
  GenOpts go;
  if (large) t.extend = true;     // thousands of choices per case
  if (large) { go.minm = 200; go.maxm = 400; go.minn = 200; go.maxn = 600; go.bigness = 1; }
  else { go.maxm = 2 + (int)t.below(25); go.maxn = 2 + (int)t.below(30); go.bigness = 1; }
  GenLP g;
  static const int fam[] = {F_OPT, F_OPT, F_FACE, F_OPT, F_INF, F_RAND, F_OPT, F_SHAPE};
  gen_lp_family(t, go, large ? (t.chance(1, 3) ? F_DUP : (t.chance(1, 6) ? F_INF : F_OPT)) : (t.chance(1, 9) ? F_DUP : fam[t.below(8)]), g);
  Model m2 = g.m;
  Affine af;
  Op tr("transform");
  int k = 2 + (int)t.below(5);
  std::set<int> kinds;
  for (int s = 0; s < k; s++) {
    int kind = (int)t.below(9);
    kinds.insert(kind);
    tr.I(kind);
    switch (kind) {
    case 0: t_perm_rows(t, m2); break;
    case 1: t_perm_cols(t, m2); break;
    case 2: t_scale_rows(t, m2, false); break;
    case 3: t_scale_rows(t, m2, true); break;
    case 4: t_substitute(t, m2, af); break;
    case 5: t_negate_objective(m2, af); break;
    case 6: t_duplicate_row(t, m2); break;
    case 7: t_redundant_row(t, m2); break;
    default: t_split_equalities(t, m2); break;
    }
  }
  // unique names after duplication etc.
  for (int i = 0; i < m2.m(); i++) m2.rows[i].name = "t" + std::to_string(i);
  c.add_model(g.m);
  Op meta("meta");
  meta.I(g.expect).N(g.expect_value).S(g.family);
  c.ops.push_back(meta);
  c.add_model(m2);
  tr.N(af.scale).N(af.shift);
  tr.I(-1).I((long)kinds.size());
  c.ops.push_back(tr);
  // driver per side: 0 = exact driver, 1 = direct rational primal simplex, 2 = direct rational dual simplex
  // (small cases only: the direct rational simplex on hundreds of rows costs minutes)
  long a1 = t.below(2), a2 = t.below(2);
  long d1 = (!large && t.chance(1, 4)) ? 1 + (long)t.below(2) : 0;
  long d2 = (!large && t.chance(1, 4)) ? 1 + (long)t.below(2) : 0;
  // the transformed formulation is built through any of the API routes (bulk load, columns then rows, rows then
  // columns, multi-row/column calls): how an LP is entered is part of "formulation"
  long route2 = t.chance(1, 2) ? (long)t.below(R_FILE) : (long)R_LOAD;
  c.ops.push_back(Op("algo").I(a1).I(a2).I(d1).I(d2).I(route2));
}
static void c15_gen(Tape &t, Case &c) { c15_gen_common(t, c, false); }
static void c15_gen_large(Tape &t, Case &c) { c15_gen_common(t, c, true); }

static bool solve_once(const Model &m, int algo, int driver, int route, int &status, Q &value, std::string *err) {
  mpq_QSprob p = sut_build(m, route, err);
  if (!p) return false;
  QArr x(m.n() + m.m()), y(m.m());
  status = 0;
  int rv;
  if (driver == 1) rv = mpq_QSopt_primal(p, &status);
  else if (driver == 2) rv = mpq_QSopt_dual(p, &status);
  else rv = QSexact_solver(p, x.v, y.v, nullptr, algo ? DUAL_SIMPLEX : PRIMAL_SIMPLEX, &status);
  QSexact_set_precision(128);
  bool ok = rv == 0;
  if (ok && status == QS_LP_OPTIMAL) ok = mpq_QSget_objval(p, qp(value)) == 0;
  mpq_QSfree_prob(p);
  if (!ok && err) *err = strprintf("QSexact_solver returned %d", rv);
  return ok;
}

static void c15_run(const Case &c, Result &r) {
  size_t pos = 0;
  Model m1, m2;
  if (!model_from_ops(c.ops, pos, m1)) { r.verdict = DISCARD; return; }
  int expect = 0;
  Q expect_value;
  std::string family;
  if (pos < c.ops.size() && c.ops[pos].k == "meta") { const Op &o = c.ops[pos++]; expect = o.i.empty() ? 0 : (int)o.i[0]; if (!o.q.empty()) expect_value = o.q[0]; if (!o.s.empty()) family = o.s[0]; }
  if (!model_from_ops(c.ops, pos, m2)) { r.verdict = DISCARD; return; }
  if (pos >= c.ops.size() || c.ops[pos].k != "transform" || c.ops[pos].q.size() < 2) { r.verdict = DISCARD; return; }
  const Op &tr = c.ops[pos++];
  Q scale = tr.q[0], shift = tr.q[1];
  int nkinds = 0;
  static const char *kn[] = {"perm-rows", "perm-cols", "scale-rows+", "scale-rows-", "substitute", "negate-objective", "duplicate-row", "redundant-row", "split-equalities"};
  for (size_t k = 0; k < tr.i.size(); k++) { if (tr.i[k] == -1) { if (k + 1 < tr.i.size()) nkinds = (int)tr.i[k + 1]; break; } r.label(std::string("transform:") + kn[tr.i[k] % 9]); }
  int a1 = 0, a2 = 1;
  int d1 = 0, d2 = 0, route2 = R_LOAD;
  if (pos < c.ops.size() && c.ops[pos].k == "algo" && c.ops[pos].i.size() >= 2) {
    a1 = (int)c.ops[pos].i[0]; a2 = (int)c.ops[pos].i[1];
    if (c.ops[pos].i.size() >= 4) { d1 = (int)c.ops[pos].i[2] % 3; d2 = (int)c.ops[pos].i[3] % 3; }
    if (c.ops[pos].i.size() >= 5) route2 = (int)c.ops[pos].i[4] % R_FILE;
  }
  static const char *dn[] = {"exact", "direct-primal", "direct-dual"};
  r.label(std::string("driver:") + dn[d1] + "/" + dn[d2]);
  r.label("route-transformed:" + std::to_string(route2));
  bool large = m1.m() >= 200 || m1.n() >= 400;
  r.label(large ? "size:large" : "size:small");
  r.label("family:" + family.substr(0, family.find('/')));
  int s1 = 0, s2 = 0;
  Q v1, v2;
  std::string err;
  if (!solve_once(m1, a1, d1, R_LOAD, s1, v1, &err)) { r.fail("solve-error:original", err); return; }
  if (!solve_once(m2, a2, d2, route2, s2, v2, &err)) { r.fail("solve-error:transformed", err); return; }
  auto def = [](int s) { return s == QS_LP_OPTIMAL || s == QS_LP_INFEASIBLE || s == QS_LP_UNBOUNDED; };
  r.label(strprintf("status:%d/%d", s1, s2));
  if (!def(s1) || !def(s2)) {
    // one side not definitive: only a finding if the other side shows the LP is within the solver's reach
    // a non-definitive answer is a completeness matter (C03, stated for moderate bit sizes); the
    // transformations multiply bit sizes, so it is counted here, not judged
    r.label(def(s1) != def(s2) ? "definitive-on-one-formulation-only" : "both-nondefinitive");
  } else if (s1 != s2) r.fail("status-differs", strprintf("original status %d, equivalent formulation status %d", s1, s2));
  else if (s1 == QS_LP_OPTIMAL && v2 != scale * v1 + shift)
    r.fail("value-differs", "original optimum " + qstr(v1) + ", transformed " + qstr(v2) + ", expected " + qstr(scale * v1 + shift));
  if (r.verdict == PASS && expect == T_OPTIMAL && s1 == QS_LP_OPTIMAL && v1 != expect_value) r.fail("value-vs-construction", "optimum " + qstr(v1) + " but the construction witness proves " + qstr(expect_value));
  if (r.verdict == PASS && expect != T_UNKNOWN && def(s1) && ((expect == T_OPTIMAL) != (s1 == QS_LP_OPTIMAL))) r.fail("status-vs-construction", strprintf("status %d but construction says %d", s1, expect));
  r.nontrivial = def(s1) && def(s2) && nkinds >= 2;
  r.canon = c.str();
  r.sample = strprintf("%dx%d -> %dx%d, statuses %d/%d\n", m1.m(), m1.n(), m2.m(), m2.n(), s1, s2) + tr.str().substr(0, 200);
}

void register_c15() {
  register_property({"C15", "", c15_gen, c15_run, 10, 240, false});
  register_property({"C15", "large", c15_gen_large, c15_run, 160, 600, false});
}

}  // namespace qsx

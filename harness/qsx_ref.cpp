// qsx_ref.cpp -- the trusted base: exact certificate checkers and an independent,
// self-certifying reference LP solver (dense two-phase simplex over mpq with Bland's rule).
// Nothing in here shares code with the library under test.
#include "qsx.hpp"

namespace qsx {

// A row's right-hand side is an ordinary number for the library whatever its magnitude (only column
// bounds and the range -- the logical's upper bound -- are compared with the in-band infinity), so the
// infinite sides are flags, never inferred from the size of rhs.
static void row_interval(const Row &r, Q &lo, Q &up, bool &lo_inf, bool &up_inf) {
  lo_inf = up_inf = false;
  switch (r.sense) {
  case 'L': lo = NINF(); up = r.rhs; lo_inf = true; break;
  case 'G': lo = r.rhs; up = PINF(); up_inf = true; break;
  case 'E': lo = r.rhs; up = r.rhs; break;
  default: lo = r.rhs; up = r.rhs + r.range; up_inf = is_pinf(r.range); break;   // 'R'
  }
}
static Q row_activity(const Row &r, const std::vector<Q> &x) {
  Q a = 0;
  for (auto &kv : r.a) a += kv.second * x[kv.first];
  return a;
}

bool primal_feasible(const Model &m, const std::vector<Q> &x, std::string *why) {
  auto W = [&](const std::string &s) { if (why) *why = s; return false; };
  if ((int)x.size() < m.n()) return W("x too short");
  for (int j = 0; j < m.n(); j++) {
    const Col &c = m.cols[j];
    if (!is_ninf(c.lo) && x[j] < c.lo) return W(strprintf("x[%d]=%s below lower bound %s", j, qstr(x[j]).c_str(), qstr(c.lo).c_str()));
    if (!is_pinf(c.up) && x[j] > c.up) return W(strprintf("x[%d]=%s above upper bound %s", j, qstr(x[j]).c_str(), qstr(c.up).c_str()));
  }
  for (int i = 0; i < m.m(); i++) {
    Q lo, up, a = row_activity(m.rows[i], x);
    bool li, ui;
    row_interval(m.rows[i], lo, up, li, ui);
    if (!li && a < lo) return W(strprintf("row %d (%c): activity %s below %s", i, m.rows[i].sense, qstr(a).c_str(), qstr(lo).c_str()));
    if (!ui && a > up) return W(strprintf("row %d (%c): activity %s above %s", i, m.rows[i].sense, qstr(a).c_str(), qstr(up).c_str()));
  }
  return true;
}

// Weak duality bound obtained from multipliers pi: for every feasible x',
//   c.x' = pi.(A x') + (c - A^T pi).x'  >=  sum_i min_{act in row interval}(pi_i act) + sum_j min_{box}(d_j x_j)   (MIN)
// (MAX: <= with max).  Returns false if the bound is infinite (a multiplier leans on an infinite side).
static bool dual_bound(const Model &m, const std::vector<Q> &pi, Q &bound, std::string *why) {
  auto W = [&](const std::string &s) { if (why) *why = s; return false; };
  bool mini = m.objsense >= 0;
  std::vector<Q> d(m.n());
  for (int j = 0; j < m.n(); j++) d[j] = m.cols[j].obj;
  bound = 0;
  for (int i = 0; i < m.m(); i++) {
    const Row &r = m.rows[i];
    for (auto &kv : r.a) d[kv.first] -= pi[i] * kv.second;
    if (pi[i] == 0) continue;
    Q lo, up;
    bool li, ui;
    row_interval(r, lo, up, li, ui);
    // MIN wants the smallest value of pi_i*act, MAX the largest
    bool use_lo = mini ? (pi[i] > 0) : (pi[i] < 0);
    const Q &side = use_lo ? lo : up;
    if (use_lo ? li : ui) return W(strprintf("dual sign condition violated on row %d (%c): pi=%s leans on the infinite side", i, r.sense, qstr(pi[i]).c_str()));
    bound += pi[i] * side;
  }
  for (int j = 0; j < m.n(); j++) {
    if (d[j] == 0) continue;
    const Col &c = m.cols[j];
    bool use_lo = mini ? (d[j] > 0) : (d[j] < 0);
    const Q &side = use_lo ? c.lo : c.up;
    if (!is_fin(side)) return W(strprintf("reduced cost sign condition violated on column %d: d=%s leans on an infinite bound", j, qstr(d[j]).c_str()));
    bound += d[j] * side;
  }
  return true;
}

bool dual_bound_of(const Model &m, const std::vector<Q> &pi, Q &bound, std::string *why) {
  if ((int)pi.size() < m.m()) { if (why) *why = "multiplier vector too short"; return false; }
  return dual_bound(m, pi, bound, why);
}

bool verify_optimal(const Model &m, const std::vector<Q> &x, const std::vector<Q> &pi, Q *value, std::string *why) {
  auto W = [&](const std::string &s) { if (why) *why = s; return false; };
  if ((int)x.size() < m.n() || (int)pi.size() < m.m()) return W("solution vectors too short");
  std::string w;
  if (!primal_feasible(m, x, &w)) return W("primal infeasible: " + w);
  Q bound;
  if (!dual_bound(m, pi, bound, &w)) return W("dual infeasible: " + w);
  Q obj = 0;
  for (int j = 0; j < m.n(); j++) obj += m.cols[j].obj * x[j];
  if (obj != bound) return W("duality gap: c.x = " + qstr(obj) + " but the dual bound is " + qstr(bound));
  if (value) *value = obj;
  return true;
}

// Farkas: for feasible x,  y.(Ax) = (A^T y).x ; the left side is >= L(y), the right side <= U(y);
// L(y) > U(y) is a contradiction.  Either orientation of y is a valid proof.
static bool farkas_oriented(const Model &m, const std::vector<Q> &y, std::string *why) {
  auto W = [&](const std::string &s) { if (why) *why = s; return false; };
  std::vector<Q> z(m.n(), Q(0));
  Q L = 0, U = 0;
  for (int i = 0; i < m.m(); i++) {
    if (y[i] == 0) continue;
    const Row &r = m.rows[i];
    for (auto &kv : r.a) z[kv.first] += y[i] * kv.second;
    Q lo, up;
    bool li, ui;
    row_interval(r, lo, up, li, ui);
    const Q &side = y[i] > 0 ? lo : up;
    if (y[i] > 0 ? li : ui) return W(strprintf("multiplier of row %d (%c) has the wrong sign", i, r.sense));
    L += y[i] * side;
  }
  for (int j = 0; j < m.n(); j++) {
    if (z[j] == 0) continue;
    const Q &side = z[j] > 0 ? m.cols[j].up : m.cols[j].lo;
    if (!is_fin(side)) return W(strprintf("aggregated coefficient of column %d leans on an infinite bound", j));
    U += z[j] * side;
  }
  if (!(L > U)) return W("aggregated inequality is satisfiable: lower bound " + qstr(L) + " <= upper bound " + qstr(U));
  return true;
}
bool verify_farkas(const Model &m, const std::vector<Q> &y, std::string *why) {
  if ((int)y.size() < m.m()) { if (why) *why = "multiplier vector too short"; return false; }
  std::string w1, w2;
  if (farkas_oriented(m, y, &w1)) return true;
  std::vector<Q> ny(y.size());
  for (size_t i = 0; i < y.size(); i++) ny[i] = -y[i];
  if (farkas_oriented(m, ny, &w2)) return true;
  if (why) *why = w1 + " / negated: " + w2;
  return false;
}

bool verify_ray(const Model &m, const std::vector<Q> &x, const std::vector<Q> &d, std::string *why) {
  auto W = [&](const std::string &s) { if (why) *why = s; return false; };
  std::string w;
  if (!primal_feasible(m, x, &w)) return W("base point infeasible: " + w);
  Q cd = 0;
  for (int j = 0; j < m.n(); j++) {
    const Col &c = m.cols[j];
    if (!is_ninf(c.lo) && d[j] < 0) return W("ray leaves a lower bound");
    if (!is_pinf(c.up) && d[j] > 0) return W("ray leaves an upper bound");
    cd += c.obj * d[j];
  }
  for (int i = 0; i < m.m(); i++) {
    Q lo, up, a = row_activity(m.rows[i], d);
    bool li, ui;
    row_interval(m.rows[i], lo, up, li, ui);
    if (!li && a < 0) return W("ray leaves a row from below");
    if (!ui && a > 0) return W("ray leaves a row from above");
  }
  if (m.objsense >= 0 ? !(cd < 0) : !(cd > 0)) return W("ray does not improve the objective");
  return true;
}

void model_slack_rc(const Model &m, const std::vector<Q> &x, const std::vector<Q> &pi, std::vector<Q> &slack, std::vector<Q> &rc) {
  slack.assign(m.m(), Q(0));
  rc.assign(m.n(), Q(0));
  for (int j = 0; j < m.n(); j++) rc[j] = m.cols[j].obj;
  for (int i = 0; i < m.m(); i++) {
    const Row &r = m.rows[i];
    Q a = row_activity(r, x);
    slack[i] = (r.sense == 'G' || r.sense == 'R') ? a - r.rhs : r.rhs - a;
    for (auto &kv : r.a) rc[kv.first] -= pi[i] * kv.second;
  }
}

bool check_solution(const Model &m, const Solution &s, std::string *sig, std::string *why) {
  auto F = [&](const std::string &g, const std::string &w) { if (sig) *sig = g; if (why) *why = w; return false; };
  if ((int)s.x.size() != m.n() || (int)s.rc.size() != m.n() || (int)s.pi.size() != m.m() || (int)s.slack.size() != m.m())
    return F("cert:sizes", "solution arrays have the wrong sizes");
  std::vector<Q> slack, rc;
  model_slack_rc(m, s.x, s.pi, slack, rc);
  for (int i = 0; i < m.m(); i++)
    if (slack[i] != s.slack[i])
      return F("cert:slack-identity", strprintf("row %d (%c): reported slack %s, but rhs/activity give %s", i, m.rows[i].sense,
                                                 qstr(s.slack[i]).c_str(), qstr(slack[i]).c_str()));
  for (int j = 0; j < m.n(); j++)
    if (rc[j] != s.rc[j])
      return F("cert:rc-identity", strprintf("column %d: reported reduced cost %s, but c - A^T pi = %s", j, qstr(s.rc[j]).c_str(), qstr(rc[j]).c_str()));
  Q val;
  std::string w;
  if (!verify_optimal(m, s.x, s.pi, &val, &w)) {
    std::string g = w.rfind("primal", 0) == 0 ? "cert:primal-infeasible" : (w.rfind("dual", 0) == 0 ? "cert:dual-infeasible" : "cert:gap");
    return F(g, w);
  }
  if (val != s.value) return F("cert:value", "reported objective value " + qstr(s.value) + " differs from c.x = " + qstr(val));
  return true;
}

// ------------------------------------------------------------------------------------
// Reference solver: standard form  min c'y  s.t.  M y = b (b >= 0), y >= 0, two-phase
// tableau simplex with Bland's rule.  The answer is accepted only with a verified
// certificate against the *original* model.
// ------------------------------------------------------------------------------------
namespace {
struct StdForm {
  int nrows = 0, ncols = 0;               // without artificials
  std::vector<std::vector<Q>> M;          // nrows x ncols
  std::vector<Q> b, c;
  std::vector<int> rowsign;               // +1/-1 applied to make b >= 0
  // mapping back: x_j = base_j + sum coef * y_k
  struct Map { Q base; int k1 = -1; Q c1; int k2 = -1; Q c2; };
  std::vector<Map> xmap;
  int orig_rows = 0;                      // first orig_rows rows correspond to model rows
};

void build_std(const Model &m, StdForm &s) {
  int n = m.n(), mm = m.m();
  s.xmap.resize(n);
  int k = 0;
  std::vector<std::pair<int, Q>> ubrows;  // (y index, bound) : y + t = bound
  for (int j = 0; j < n; j++) {
    const Col &c = m.cols[j];
    StdForm::Map &mp = s.xmap[j];
    if (!is_ninf(c.lo)) {
      mp.base = c.lo; mp.k1 = k++; mp.c1 = 1;
      if (!is_pinf(c.up)) ubrows.push_back({mp.k1, c.up - c.lo});
    } else if (!is_pinf(c.up)) {
      mp.base = c.up; mp.k1 = k++; mp.c1 = -1;
    } else {
      mp.base = 0; mp.k1 = k++; mp.c1 = 1; mp.k2 = k++; mp.c2 = -1;
    }
  }
  int nstructy = k;
  // slacks
  std::vector<int> slack_of_row(mm, -1);
  std::vector<std::pair<int, Q>> rgrows;
  for (int i = 0; i < mm; i++) {
    char sn = m.rows[i].sense;
    if (sn == 'E') continue;
    slack_of_row[i] = k++;
    if (sn == 'R') rgrows.push_back({slack_of_row[i], m.rows[i].range});
  }
  int nub = (int)ubrows.size() + (int)rgrows.size();
  int first_t = k;
  k += nub;
  s.ncols = k;
  s.nrows = mm + nub;
  s.orig_rows = mm;
  s.M.assign(s.nrows, std::vector<Q>(s.ncols, Q(0)));
  s.b.assign(s.nrows, Q(0));
  s.c.assign(s.ncols, Q(0));
  Q sense = m.objsense >= 0 ? Q(1) : Q(-1);
  for (int j = 0; j < n; j++) {
    const StdForm::Map &mp = s.xmap[j];
    s.c[mp.k1] += sense * m.cols[j].obj * mp.c1;
    if (mp.k2 >= 0) s.c[mp.k2] += sense * m.cols[j].obj * mp.c2;
  }
  for (int i = 0; i < mm; i++) {
    const Row &r = m.rows[i];
    Q rhs = r.rhs;
    for (auto &kv : r.a) {
      const StdForm::Map &mp = s.xmap[kv.first];
      rhs -= kv.second * mp.base;
      s.M[i][mp.k1] += kv.second * mp.c1;
      if (mp.k2 >= 0) s.M[i][mp.k2] += kv.second * mp.c2;
    }
    if (r.sense == 'L') s.M[i][slack_of_row[i]] = 1;
    if (r.sense == 'G' || r.sense == 'R') s.M[i][slack_of_row[i]] = -1;
    s.b[i] = rhs;
  }
  int row = mm, t = first_t;
  for (auto &u : ubrows) { s.M[row][u.first] = 1; s.M[row][t++] = 1; s.b[row++] = u.second; }
  for (auto &u : rgrows) { s.M[row][u.first] = 1; s.M[row][t++] = 1; s.b[row++] = u.second; }
  (void)nstructy;
  s.rowsign.assign(s.nrows, 1);
  for (int i = 0; i < s.nrows; i++)
    if (s.b[i] < 0) {
      s.rowsign[i] = -1;
      s.b[i] = -s.b[i];
      for (auto &v : s.M[i]) v = -v;
    }
}

struct Tableau {
  int R, C;                               // rows, columns (incl. artificials), rhs stored separately
  std::vector<std::vector<Q>> T;
  std::vector<Q> rhs, cost, z;            // z = reduced cost row
  Q zval;
  std::vector<int> basis;
  long pivots = 0;
  void pivot(int r, int c) {
    pivots++;
    Q p = T[r][c];
    for (int j = 0; j < C; j++) if (T[r][j] != 0) T[r][j] /= p;
    rhs[r] /= p;
    for (int i = 0; i < R; i++) {
      if (i == r || T[i][c] == 0) continue;
      Q f = T[i][c];
      for (int j = 0; j < C; j++) if (T[r][j] != 0) T[i][j] -= f * T[r][j];
      rhs[i] -= f * rhs[r];
    }
    if (z[c] != 0) {
      Q f = z[c];
      for (int j = 0; j < C; j++) if (T[r][j] != 0) z[j] -= f * T[r][j];
      zval -= f * rhs[r];
    }
    basis[r] = c;
  }
  void set_costs(const std::vector<Q> &cst) {
    cost = cst;
    z = cost;
    zval = 0;
    for (int i = 0; i < R; i++) {
      Q cb = cost[basis[i]];
      if (cb == 0) continue;
      for (int j = 0; j < C; j++) if (T[i][j] != 0) z[j] -= cb * T[i][j];
      zval -= cb * rhs[i];
    }
  }
  // returns 0 optimal, 1 unbounded (col in *uc), 2 pivot limit
  int run(int ncand, long maxpiv, int *uc) {
    for (;;) {
      if (pivots > maxpiv) return 2;
      int e = -1;
      for (int j = 0; j < ncand; j++) if (z[j] < 0) { e = j; break; }   // Bland
      if (e < 0) return 0;
      int l = -1;
      Q best;
      for (int i = 0; i < R; i++) {
        if (T[i][e] <= 0) continue;
        Q ratio = rhs[i] / T[i][e];
        if (l < 0 || ratio < best || (ratio == best && basis[i] < basis[l])) { l = i; best = ratio; }
      }
      if (l < 0) { if (uc) *uc = e; return 1; }
      pivot(l, e);
    }
  }
};
}  // namespace

void ref_solve(const Model &m, RefResult &out, long max_pivots) {
  out = RefResult();
  StdForm s;
  build_std(m, s);
  int R = s.nrows, N = s.ncols;
  Tableau t;
  t.R = R; t.C = N + R;
  t.T.assign(R, std::vector<Q>(N + R, Q(0)));
  t.rhs = s.b;
  t.basis.resize(R);
  for (int i = 0; i < R; i++) {
    for (int j = 0; j < N; j++) t.T[i][j] = s.M[i][j];
    t.T[i][N + i] = 1;
    t.basis[i] = N + i;
  }
  std::vector<Q> c1(N + R, Q(0));
  for (int i = 0; i < R; i++) c1[N + i] = 1;
  t.set_costs(c1);
  int uc = -1;
  int st = R ? t.run(N, max_pivots, &uc) : 0;
  out.pivots = t.pivots;
  if (st == 2) return;
  auto x_from_y = [&](const std::vector<Q> &y, bool direction) {
    std::vector<Q> x(m.n());
    for (int j = 0; j < m.n(); j++) {
      const StdForm::Map &mp = s.xmap[j];
      x[j] = direction ? Q(0) : mp.base;
      x[j] += mp.c1 * y[mp.k1];
      if (mp.k2 >= 0) x[j] += mp.c2 * y[mp.k2];
    }
    return x;
  };
  auto duals = [&]() {
    // reduced cost of artificial i is cost_art - pi_i ; with phase costs known
    std::vector<Q> pi(m.m());
    for (int i = 0; i < m.m(); i++) pi[i] = (t.cost[N + i] - t.z[N + i]) * Q(s.rowsign[i]);
    return pi;
  };
  Q infeas = -t.zval;   // zval = -objective
  if (infeas > 0) {
    std::vector<Q> y = duals();
    std::string w;
    // the model is a minimisation of artificial sum here; multipliers prove infeasibility
    if (verify_farkas(m, y, &w)) {
      out.truth = T_INFEASIBLE;
      out.y = y;
      // is the dual of the real objective infeasible too? (needed to classify the by-design
      // UNSOLVED of the direct dual simplex); decided by a second reference run on demand
    }
    return;
  }
  // drive artificials out of the basis where possible
  for (int i = 0; i < R; i++) {
    if (t.basis[i] < N) continue;
    for (int j = 0; j < N; j++)
      if (t.T[i][j] != 0) { t.pivot(i, j); break; }
  }
  std::vector<Q> c2(N + R, Q(0));
  for (int j = 0; j < N; j++) c2[j] = s.c[j];
  t.set_costs(c2);
  st = t.run(N, max_pivots, &uc);
  out.pivots = t.pivots;
  if (st == 2) return;
  std::vector<Q> y(N, Q(0));
  for (int i = 0; i < R; i++) if (t.basis[i] < N) y[t.basis[i]] = t.rhs[i];
  std::vector<Q> x = x_from_y(y, false);
  if (st == 0) {
    std::vector<Q> pi = duals();
    // std form minimises sense*c ; duals of the original (max) problem flip sign
    if (m.objsense < 0) for (auto &v : pi) v = -v;
    Q val;
    std::string w;
    if (verify_optimal(m, x, pi, &val, &w)) {
      out.truth = T_OPTIMAL;
      out.value = val;
      out.x = x;
      out.y = pi;
    }
    return;
  }
  // unbounded: direction in y space
  std::vector<Q> dy(N, Q(0));
  dy[uc] = 1;
  for (int i = 0; i < R; i++) if (t.basis[i] < N) dy[t.basis[i]] = -t.T[i][uc];
  std::vector<Q> d = x_from_y(dy, true);
  std::string w;
  if (verify_ray(m, x, d, &w)) {
    out.truth = T_UNBOUNDED;
    out.x = x;
    out.d = d;
  }
}

}  // namespace qsx

// ------------------------------------------------------------------------------------
// exact arithmetic on a given basis (C12, C14): dense Gauss-Jordan over the rationals
// ------------------------------------------------------------------------------------
namespace qsx {

// solve M z = b for square M (row-major), returns false if singular
static bool gauss_solve(std::vector<std::vector<Q>> M, std::vector<Q> b, std::vector<Q> &z) {
  int n = (int)M.size();
  for (int c = 0; c < n; c++) {
    int piv = -1;
    for (int r = c; r < n; r++) if (M[r][c] != 0) { piv = r; break; }
    if (piv < 0) return false;
    std::swap(M[piv], M[c]);
    std::swap(b[piv], b[c]);
    Q p = M[c][c];
    for (int k = c; k < n; k++) M[c][k] /= p;
    b[c] /= p;
    for (int r = 0; r < n; r++) {
      if (r == c || M[r][c] == 0) continue;
      Q f = M[r][c];
      for (int k = c; k < n; k++) if (M[c][k] != 0) M[r][k] -= f * M[c][k];
      b[r] -= f * b[c];
    }
  }
  z = b;
  return true;
}

void basis_eval(const Model &m, const std::string &cstat, const std::string &rstat, BasisEval &out) {
  out = BasisEval();
  int n = m.n(), mm = m.m(), N = n + mm;
  // internal columns: structurals then logicals; internal min-form costs
  std::vector<Q> lo(N), up(N), cost(N, Q(0));
  std::vector<std::map<int, Q>> colv(N);           // row -> coef
  for (int j = 0; j < n; j++) { lo[j] = m.cols[j].lo; up[j] = m.cols[j].up; cost[j] = m.cols[j].obj * Q(m.objsense >= 0 ? 1 : -1); }
  for (int i = 0; i < mm; i++) {
    const Row &r = m.rows[i];
    for (auto &kv : r.a) colv[kv.first][i] = kv.second;
    int s = n + i;
    colv[s][i] = (r.sense == 'G' || r.sense == 'R') ? Q(-1) : Q(1);
    lo[s] = 0;
    up[s] = r.sense == 'E' ? Q(0) : (r.sense == 'R' ? r.range : PINF());
  }
  std::vector<int> basic;
  std::vector<char> st(N);
  for (int j = 0; j < n; j++) st[j] = cstat[j];
  for (int i = 0; i < mm; i++) st[n + i] = rstat[i];
  for (int j = 0; j < N; j++) if (st[j] == '1') basic.push_back(j);
  out.x.assign(N, Q(0));
  out.dj.assign(N, Q(0));
  out.pi.assign(mm, Q(0));
  if ((int)basic.size() != mm) { out.singular = true; return; }
  // nonbasic values
  for (int j = 0; j < N; j++) {
    if (st[j] == '1') continue;
    if (st[j] == '0') out.x[j] = is_fin(lo[j]) ? lo[j] : Q(0);
    else if (st[j] == '2') out.x[j] = is_fin(up[j]) ? up[j] : Q(0);
    else out.x[j] = 0;
  }
  std::vector<std::vector<Q>> B(mm, std::vector<Q>(mm, Q(0))), BT(mm, std::vector<Q>(mm, Q(0)));
  for (int k = 0; k < mm; k++) for (auto &kv : colv[basic[k]]) { B[kv.first][k] = kv.second; BT[k][kv.first] = kv.second; }
  std::vector<Q> rhs(mm);
  for (int i = 0; i < mm; i++) rhs[i] = m.rows[i].rhs;
  for (int j = 0; j < N; j++) if (st[j] != '1' && out.x[j] != 0) for (auto &kv : colv[j]) rhs[kv.first] -= kv.second * out.x[j];
  std::vector<Q> xb, pi, cb(mm);
  if (mm > 0) {
    if (!gauss_solve(B, rhs, xb)) { out.singular = true; return; }
    for (int k = 0; k < mm; k++) cb[k] = cost[basic[k]];
    if (!gauss_solve(BT, cb, pi)) { out.singular = true; return; }
  }
  for (int k = 0; k < mm; k++) out.x[basic[k]] = xb[k];
  out.pi = pi;
  out.pfeas = true;
  for (int k = 0; k < mm; k++) {
    int j = basic[k];
    if ((is_fin(lo[j]) && out.x[j] < lo[j]) || (is_fin(up[j]) && out.x[j] > up[j])) out.pfeas = false;
  }
  out.dfeas = true;
  out.pobj = 0;
  out.dobj = 0;
  for (int i = 0; i < mm; i++) out.dobj += out.pi[i] * m.rows[i].rhs;
  for (int j = 0; j < N; j++) {
    Q d = cost[j];
    for (auto &kv : colv[j]) d -= out.pi[kv.first] * kv.second;
    out.dj[j] = d;
    out.pobj += cost[j] * out.x[j];
    if (st[j] == '1') continue;
    bool fixed = is_fin(lo[j]) && is_fin(up[j]) && lo[j] == up[j];
    if (!fixed) {
      if (st[j] == '0' && d < 0) out.dfeas = false;
      if (st[j] == '2' && d > 0) out.dfeas = false;
      if (st[j] == '3' && d != 0) out.dfeas = false;
    }
    out.dobj += d * out.x[j];
  }
}

}  // namespace qsx

// C13 -- LU-based solves are exact: B^-1 B = I for every basis and update history
#include "qsx.hpp"

extern "C" {
// component level access to the sparse LU code (qsx_shim.c)
void *qsx_lu_new(int dim);
void qsx_lu_free(void *h);
int qsx_lu_set_iparam(void *h, int param, int val);
int qsx_lu_factor(void *h, int ncols, int *cbeg, int *clen, int *cind, mpq_t *cval, int *basis, int *nsing);
int qsx_lu_ftran(void *h, int nz, int *ind, mpq_t *val, mpq_t *out);
int qsx_lu_btran(void *h, int nz, int *ind, mpq_t *val, mpq_t *out);
int qsx_lu_update(void *h, int nz, int *ind, mpq_t *val, int position, int *refactor);
}

namespace qsx {

// ---------------------------------------------------------------- API level
static void c13_gen_api(Tape &t, Case &c) {
  GenOpts go;
  go.maxm = 2 + (int)t.below(9); go.maxn = 2 + (int)t.below(9); go.bigness = 1; go.minm = 1;
  GenLP g;
  static const int fam[] = {F_OPT, F_OPT, F_FACE, F_OPT, F_ILL, F_CYC};
  gen_lp_family(t, go, fam[t.below(6)], g);
  c.add_model(g.m);
  c.ops.push_back(Op("route").I(t.below(R_NROUTES)));
  SolveCfg cfg = gen_cfg(t, true);
  cfg.entry = 1 + (int)t.below(2);
  cfg.precision = 0;
  c.ops.push_back(cfg.op());
  int k = (int)t.below(12);
  for (int s = 0; s < k; s++) {
    if (t.exhausted() && s > 0) break;
    Op p(t.chance(1, 4) ? "pivcol" : "pivrow");
    int cnt = 1 + (int)t.below(3);
    int lim = p.k == "pivrow" ? g.m.m() : g.m.n();
    if (lim == 0) continue;
    std::set<long> seen;
    for (int q = 0; q < cnt; q++) { long v = (long)t.below((uint32_t)lim); if (seen.insert(v).second) p.I(v); }
    c.ops.push_back(p);
  }
}

// internal column (structurals then logicals) of the model
static std::map<int, Q> internal_col(const Model &m, int j) {
  std::map<int, Q> col;
  if (j < m.n()) { for (int i = 0; i < m.m(); i++) { auto it = m.rows[i].a.find(j); if (it != m.rows[i].a.end()) col[i] = it->second; } }
  else { int i = j - m.n(); col[i] = (m.rows[i].sense == 'G' || m.rows[i].sense == 'R') ? Q(-1) : Q(1); }
  return col;
}

static bool check_inverse(mpq_QSprob p, const Model &m, Result &r, const std::string &ctx, bool cross_check_status = true) {
  int n = m.n(), mm = m.m();
  std::vector<int> order(mm + 1, -7);
  if (mpq_QSget_basis_order(p, order.data())) { r.fail("basis-order-failed:" + ctx, "QSget_basis_order failed"); return false; }
  std::set<int> seen;
  for (int k = 0; k < mm; k++) {
    if (order[k] < 0 || order[k] >= n + mm || !seen.insert(order[k]).second) { r.fail("basis-order-invalid:" + ctx, strprintf("basis order entry %d = %d", k, order[k])); return false; }
  }
  // the basis order must agree with the basis statuses
  std::string cs(n, '?'), rs(mm, '?');
  if (cross_check_status && mpq_QSget_basis_array(p, &cs[0], &rs[0]) == 0) {
    for (int k = 0; k < mm; k++) {
      char st = order[k] < n ? cs[order[k]] : rs[order[k] - n];
      if (st != '1') { r.fail("basis-order-vs-status:" + ctx, strprintf("basis order lists internal column %d whose status is %c", order[k], st)); return false; }
    }
  }
  std::vector<std::map<int, Q>> cols(n + mm);
  for (int j = 0; j < n + mm; j++) cols[j] = internal_col(m, j);
  QArr binv(mm), tab(n + mm);
  for (int i = 0; i < mm; i++) {
    if (mpq_QSget_binv_row(p, i, binv.v)) { r.fail("binv-row-failed:" + ctx, strprintf("QSget_binv_row(%d) failed", i)); return false; }
    if (mpq_QSget_tableau_row(p, i, tab.v)) { r.fail("tableau-row-failed:" + ctx, strprintf("QSget_tableau_row(%d) failed", i)); return false; }
    std::vector<Q> b(mm);
    for (int k = 0; k < mm; k++) b[k] = binv.get(k);
    for (int k = 0; k < mm; k++) {
      Q dot = 0;
      for (auto &kv : cols[order[k]]) dot += b[kv.first] * kv.second;
      if (dot != (k == i ? Q(1) : Q(0))) {
        r.fail("binv-times-B-not-identity:" + ctx, strprintf("row %d of B^-1 times basis column %d (internal %d) = %s", i, k, order[k], qstr(dot).c_str()));
        return false;
      }
    }
    for (int j = 0; j < n + mm; j++) {
      Q dot = 0;
      for (auto &kv : cols[j]) dot += b[kv.first] * kv.second;
      if (dot != tab.get(j)) {
        r.fail("tableau-row-wrong:" + ctx, strprintf("tableau row %d, column %d: reported %s, B^-1 row times the column gives %s", i, j, qstr(tab.get(j)).c_str(), qstr(dot).c_str()));
        return false;
      }
    }
  }
  return true;
}

static void c13_run_api(const Case &c, Result &r) {
  size_t pos = 0;
  Model m;
  if (!model_from_ops(c.ops, pos, m)) { r.verdict = DISCARD; return; }
  int route = 0;
  if (pos < c.ops.size() && c.ops[pos].k == "route") route = (int)c.ops[pos++].i[0];
  if (pos >= c.ops.size() || c.ops[pos].k != "cfg") { r.verdict = DISCARD; return; }
  SolveCfg cfg = SolveCfg::from_op(c.ops[pos++]);
  cfg.itlim = 3000;
  if (cfg.entry == 0) cfg.entry = 1;
  std::string why;
  mpq_QSprob p = sut_build(m, route, &why);
  if (!p) { r.fail("build:" + why, why); return; }
  Solution s;
  sut_solve(p, cfg, nullptr, s, nullptr, nullptr);
  r.label(std::string("solver:") + (cfg.entry == 1 ? "primal" : "dual"));
  int npiv = 0;
  if (s.rval == 0 && s.status == QS_LP_OPTIMAL) {
    if (check_inverse(p, m, r, "after-solve")) {
      for (; pos < c.ops.size() && r.verdict == PASS; pos++) {
        const Op &o = c.ops[pos];
        if (o.k != "pivrow" && o.k != "pivcol") continue;
        std::vector<int> lst;
        for (long v : o.i) lst.push_back((int)v);
        if (lst.empty()) continue;
        bool rows = o.k == "pivrow";
        for (int v : lst) if (v < 0 || v >= (rows ? m.m() : m.n())) { lst.clear(); break; }
        if (lst.empty()) continue;
        int rc = rows ? mpq_QSopt_pivotin_row(p, (int)lst.size(), lst.data()) : mpq_QSopt_pivotin_col(p, (int)lst.size(), lst.data());
        r.label(std::string(rows ? "pivotin_row:" : "pivotin_col:") + (rc ? "refused" : "ok"));
        if (rc == 0) {
          npiv++;
          // the requested variables are basic now
          std::string cs(m.n(), '?'), rs(m.m(), '?');
          if (mpq_QSget_basis_array(p, &cs[0], &rs[0]) == 0)
            for (int v : lst) {
              char st = rows ? rs[v] : cs[v];
              if (st != '1') { r.fail(std::string("pivotin-did-not-pivot-in:") + (rows ? "row" : "col"), strprintf("%s returned 0 but %s %d has status %c", rows ? "QSopt_pivotin_row" : "QSopt_pivotin_col", rows ? "row" : "column", v, st)); break; }
            }
        }
        // after a refused pivot-in the stored basis is not refreshed (the call failed): only the algebraic
        // identities with the reported basis order are the property's subject then
        if (r.verdict == PASS && !check_inverse(p, m, r, rows ? "after-pivotin-row" : "after-pivotin-col", rc == 0)) break;
      }
    }
  } else r.label("not-optimal");
  mpq_QSfree_prob(p);
  r.nontrivial = npiv >= 2 && m.m() >= 3;
  r.label(strprintf("pivots:%s", npiv == 0 ? "0" : (npiv < 3 ? "1-2" : "3+")));
  r.sample = c.str().substr(0, 1500);
}

// ---------------------------------------------------------------- component level
// case: "lu | dim structure | | " + "colv | col idx... | vals" ; then "upd | position idx... | vals" ; "param | id val"
static void gen_column(Tape &t, int dim, int maxnz, std::map<int, Q> &col) {
  col.clear();
  int k = 1 + (int)t.below((uint32_t)std::min(dim, maxnz));
  for (int s = 0; s < k; s++) col[(int)t.below((uint32_t)dim)] = gen_nz(t, (int)t.below(2));
}
static void c13_gen_lu(Tape &t, Case &c) {
  int dim = 1 + (int)t.below(t.chance(1, 5) ? 40 : 12);
  int structure = (int)t.below(10);
  if (structure >= 8) {   // identity plus a few +-1 entries, unit-like replacement columns: exact cancellations in the eta passes
    structure = 8;
    dim = t.chance(3, 4) ? 21 + (int)t.below(40) : 2 + (int)t.below(19);    // >= 21: a unit right-hand side is below the 5% hyper-sparse threshold
  }
  Op lu("lu");
  lu.I(dim).I(structure);
  c.ops.push_back(lu);
  // non-default factor parameters in a labelled minority of cases (so that the dense tail, eta overflow and
  // space exhaustion are reached at small dimensions)
  if (t.chance(1, 4)) {
    static const int ids[] = {QS_FACTOR_MAX_K, QS_FACTOR_ETAMAX, QS_FACTOR_DENSE_MIN};
    static const int vals[3][2] = {{2, 5}, {3, 10}, {2, 8}};
    int w = (int)t.below(3);
    c.ops.push_back(Op("param").I(ids[w]).I(vals[w][t.below(2)]));
  }
  std::vector<std::map<int, Q>> cols(dim);
  for (int j = 0; j < dim; j++) {
    std::map<int, Q> &col = cols[j];
    switch (structure) {
    case 0: gen_column(t, dim, 4, col); if (t.chance(3, 4)) col[j] = gen_nz(t, 0); break;   // random sparse, mostly with a diagonal entry
    case 1: for (int i = 0; i <= j; i++) if (i == j || t.chance(1, 3)) col[i] = gen_nz(t, 0); break;   // upper triangular
    case 2: for (int i = j; i < dim; i++) if (i == j || t.chance(1, 3)) col[i] = gen_nz(t, 0); break;  // lower triangular
    case 3: for (int i = 0; i < dim; i++) if (t.chance(3, 4)) col[i] = gen_nz(t, 1); col[j] = gen_nz(t, 1); break;   // dense
    case 4: col[j] = gen_nz(t, 0); col[0] = gen_nz(t, 0); if (j == 0) for (int i = 0; i < dim; i++) col[i] = gen_nz(t, 0); break;   // arrow
    case 5: col[(j * 7 + 3) % dim] = gen_nz(t, 0); if (t.chance(1, 3)) col[(int)t.below((uint32_t)dim)] = gen_nz(t, 0); break;        // (nearly) permutation: singletons
    case 6: if (j > 0 && t.chance(1, 3)) col = cols[(int)t.below((uint32_t)j)]; else gen_column(t, dim, 3, col); break;              // duplicate columns -> singular
    case 8: col[j] = 1; if (t.chance(1, 6)) col[(int)t.below((uint32_t)dim)] = t.coin() ? Q(1) : Q(-1); break;                        // identity + few +-1
    default: gen_column(t, dim, 3, col); if (j > 0 && t.chance(1, 2)) { col = cols[j - 1]; if (!col.empty()) col.begin()->second += qpow2(-(int)t.below(70)); } break;   // near singular
    }
    Op o("colv");
    o.I(j);
    for (auto &kv : col) { o.I(kv.first); o.N(kv.second); }
    c.ops.push_back(o);
  }
  int nupd = (int)t.below(t.chance(1, 6) ? 60 : 10);
  for (int s = 0; s < nupd; s++) {
    if (t.exhausted() && s > 0) break;
    std::map<int, Q> col;
    int kind = (int)t.below(5);
    int where = (int)t.below((uint32_t)dim);
    if (structure == 8) {          // e_where +- e_q (+- e_q2): keeps the matrix regular most of the time and the arithmetic in {0,+-1,+-2}
      col[where] = 1;
      int extra = 1 + (int)t.below(2);
      for (int x = 0; x < extra; x++) col[(int)t.below((uint32_t)dim)] = t.coin() ? Q(1) : Q(-1);
      if (col[where] == 0) col[where] = 1;
    }
    else if (kind == 0) for (int i = 0; i < dim; i++) col[i] = gen_nz(t, 0);           // heavy fill-in
    else if (kind == 1 && dim > 1) col = cols[(int)t.below((uint32_t)dim)];       // copy of an existing column: likely singular
    else gen_column(t, dim, 4, col);
    Op o("upd");
    o.I(where);
    for (auto &kv : col) { o.I(kv.first); o.N(kv.second); }
    c.ops.push_back(o);
  }
}

// reference: dense exact solve; returns false if singular
static bool dense_solve(const std::vector<std::map<int, Q>> &cols, const std::vector<Q> &rhs, bool transpose, std::vector<Q> &x) {
  int n = (int)cols.size();
  std::vector<std::vector<Q>> M(n, std::vector<Q>(n, Q(0)));
  for (int j = 0; j < n; j++) for (auto &kv : cols[j]) { if (transpose) M[j][kv.first] = kv.second; else M[kv.first][j] = kv.second; }
  std::vector<Q> b = rhs;
  for (int cidx = 0; cidx < n; cidx++) {
    int piv = -1;
    for (int rr = cidx; rr < n; rr++) if (M[rr][cidx] != 0) { piv = rr; break; }
    if (piv < 0) return false;
    std::swap(M[piv], M[cidx]); std::swap(b[piv], b[cidx]);
    Q pv = M[cidx][cidx];
    for (int k = cidx; k < n; k++) M[cidx][k] /= pv;
    b[cidx] /= pv;
    for (int rr = 0; rr < n; rr++) {
      if (rr == cidx || M[rr][cidx] == 0) continue;
      Q f = M[rr][cidx];
      for (int k = cidx; k < n; k++) if (M[cidx][k] != 0) M[rr][k] -= f * M[cidx][k];
      b[rr] -= f * b[cidx];
    }
  }
  x = b;
  return true;
}

struct LU {
  void *h = nullptr;
  int dim = 0;
  std::vector<std::pair<int, int>> params;
  bool factor(const std::vector<std::map<int, Q>> &cols, int &nsing, int &rc) {
    if (h) qsx_lu_free(h);
    h = qsx_lu_new(dim);
    for (auto &pr : params) qsx_lu_set_iparam(h, pr.first, pr.second);
    std::vector<int> cbeg, clen, cind, basis;
    std::vector<Q> vals;
    for (int j = 0; j < dim; j++) {
      cbeg.push_back((int)cind.size());
      clen.push_back((int)cols[j].size());
      for (auto &kv : cols[j]) { cind.push_back(kv.first); vals.push_back(kv.second); }
      basis.push_back(j);
    }
    cind.push_back(-1);
    QArr v((int)vals.size() + 1);
    for (size_t k = 0; k < vals.size(); k++) v.set((int)k, vals[k]);
    rc = qsx_lu_factor(h, dim, cbeg.data(), clen.data(), cind.data(), v.v, basis.data(), &nsing);
    return rc == 0 && nsing == 0;
  }
  ~LU() { if (h) qsx_lu_free(h); }
};

// one solve in each direction for the right-hand side given as (ind, val); exact residual check
static bool verify_one(LU &lu, const std::vector<std::map<int, Q>> &cols, Result &r, const std::string &ctx,
                       const std::vector<int> &ind, const std::vector<Q> &val, const char *rhskind) {
  int dim = lu.dim;
  std::vector<Q> rhs(dim, Q(0));
  for (size_t k = 0; k < ind.size(); k++) rhs[ind[k]] = val[k];
  QArr a((int)val.size() + 1), out(dim);
  for (size_t k = 0; k < val.size(); k++) a.set((int)k, val[k]);
  std::vector<int> indc = ind;
  for (int tr = 0; tr < 2; tr++) {
    int rc = tr ? qsx_lu_btran(lu.h, (int)indc.size(), indc.data(), a.v, out.v) : qsx_lu_ftran(lu.h, (int)indc.size(), indc.data(), a.v, out.v);
    if (rc) { r.fail(std::string(tr ? "btran" : "ftran") + "-failed:" + ctx, "solve returned an error"); return false; }
    // B x = a  (ftran)   /   x^T B = a^T  (btran)
    std::vector<Q> acc(dim, Q(0));
    if (!tr) { for (int j = 0; j < dim; j++) { Q xj = out.get(j); if (xj == 0) continue; for (auto &kv : cols[j]) acc[kv.first] += kv.second * xj; } }
    else { for (int k = 0; k < dim; k++) for (auto &kv : cols[k]) acc[k] += kv.second * out.get(kv.first); }
    for (int k = 0; k < dim; k++) {
      if (acc[k] != rhs[k]) {
        r.fail(std::string(tr ? "btran" : "ftran") + "-inexact:" + ctx,
               strprintf("%s with a %s right-hand side (%d non-zeros): component %d of the residual is %s (dim %d)", tr ? "x^T B = a^T" : "B x = a",
                         rhskind, (int)ind.size(), k, qstr(acc[k] - rhs[k]).c_str(), dim));
        return false;
      }
    }
  }
  return true;
}

// level 0: a one-third-dense and a dense right-hand side plus a handful of unit and two-entry ones (the
// hyper-sparse solve paths need fewer than 5% non-zeros); level 1: every unit vector and every pair e_i +- e_j
static bool verify_solves(LU &lu, const std::vector<std::map<int, Q>> &cols, Result &r, const std::string &ctx, uint64_t salt, int level = 0) {
  int dim = lu.dim;
  for (int which = 0; which < 2; which++) {
    std::vector<int> ind;
    std::vector<Q> val;
    for (int i = 0; i < dim; i++) {
      uint64_t hsh = fnv64(std::to_string(salt) + ":" + std::to_string(i) + ":" + std::to_string(which));
      if (which == 0 && (hsh % 3) != 0 && i != (int)(salt % (uint64_t)dim)) continue;
      Q v = Q((long)(hsh % 11) - 5, (long)(1 + (hsh >> 8) % 4));
      v.canonicalize();
      if (v == 0) v = 1;
      ind.push_back(i); val.push_back(v);
    }
    if (!verify_one(lu, cols, r, ctx, ind, val, which ? "dense" : "one-third-dense")) return false;
  }
  if (level == 0) {
    for (int k = 0; k < 4; k++) {
      uint64_t hsh = fnv64(std::to_string(salt) + ":u:" + std::to_string(k));
      int i = (int)(hsh % (uint64_t)dim), j = (int)((hsh >> 20) % (uint64_t)dim);
      Q s = (hsh >> 40) & 1 ? Q(1) : Q(-1);
      if (!verify_one(lu, cols, r, ctx, {i}, {Q(1)}, "unit")) return false;
      if (i != j && !verify_one(lu, cols, r, ctx, {std::min(i, j), std::max(i, j)}, {Q(1), s}, "two-entry")) return false;
    }
    return true;
  }
  for (int i = 0; i < dim; i++) if (!verify_one(lu, cols, r, ctx + ":all-units", {i}, {Q(1)}, "unit")) return false;
  for (int i = 0; i < dim; i++)
    for (int j = i + 1; j < dim; j++) {
      Q s = ((i * 31 + j + (int)salt) & 1) ? Q(1) : Q(-1);
      if (!verify_one(lu, cols, r, ctx + ":all-pairs", {i, j}, {Q(1), s}, "two-entry")) return false;
    }
  return true;
}

static void c13_run_lu(const Case &c, Result &r) {
  if (c.ops.empty() || c.ops[0].k != "lu" || c.ops[0].i.size() < 2) { r.verdict = DISCARD; return; }
  int dim = (int)c.ops[0].i[0], structure = (int)c.ops[0].i[1];
  if (dim < 1 || dim > 200) { r.verdict = DISCARD; return; }
  std::vector<std::map<int, Q>> cols(dim);
  LU lu;
  lu.dim = dim;
  size_t pos = 1;
  bool nondefault = false;
  for (; pos < c.ops.size(); pos++) {
    const Op &o = c.ops[pos];
    if (o.k == "param" && o.i.size() >= 2) { lu.params.push_back({(int)o.i[0], (int)o.i[1]}); nondefault = true; continue; }
    if (o.k != "colv") break;
    if (o.i.empty() || o.i[0] < 0 || o.i[0] >= dim) { r.verdict = DISCARD; return; }
    for (size_t k = 1; k < o.i.size() && k - 1 < o.q.size(); k++) if (o.i[k] >= 0 && o.i[k] < dim && o.q[k - 1] != 0) cols[o.i[0]][(int)o.i[k]] = o.q[k - 1];
  }
  static const char *sn[] = {"random", "upper-tri", "lower-tri", "dense", "arrow", "singletons", "duplicate-cols", "near-singular", "identity+-1"};
  if (structure < 0 || structure > 8) structure = 0;
  r.label(std::string("structure:") + sn[structure]);
  r.label(nondefault ? "params:non-default" : "params:default");
  std::string pfx = nondefault ? "nondefault-params:" : "";
  std::vector<Q> dummy(dim, Q(0)), xx;
  bool ref_nonsing = dense_solve(cols, dummy, false, xx);
  int nsing = 0, rc = 0;
  bool ok = lu.factor(cols, nsing, rc);
  if (rc) { r.fail(pfx + "factor-error", strprintf("ILLfactor returned %d on a %dx%d matrix", rc, dim, dim)); return; }
  if (ok != ref_nonsing) { r.fail(pfx + (ref_nonsing ? "regular-matrix-called-singular" : "singular-matrix-not-reported"), strprintf("ILLfactor reports nsing=%d, exact elimination says the matrix is %ssingular (dim %d, %s)", nsing, ref_nonsing ? "non-" : "", dim, sn[structure])); return; }
  r.label(ref_nonsing ? "matrix:regular" : "matrix:singular");
  int updates_since = 0, maxchain = 0, nupd = 0, nsingupd = 0, nrefac = 0;
  if (ok && !verify_solves(lu, cols, r, pfx + "after-factor", 17)) return;
  for (; ok && pos < c.ops.size() && r.verdict == PASS; pos++) {
    const Op &o = c.ops[pos];
    if (o.k != "upd" || o.i.empty()) continue;
    int position = (int)o.i[0];
    if (position < 0 || position >= dim) continue;
    std::map<int, Q> col;
    for (size_t k = 1; k < o.i.size() && k - 1 < o.q.size(); k++) if (o.i[k] >= 0 && o.i[k] < dim && o.q[k - 1] != 0) col[(int)o.i[k]] = o.q[k - 1];
    if (col.empty()) continue;
    std::vector<std::map<int, Q>> ncols = cols;
    ncols[position] = col;
    bool new_regular = dense_solve(ncols, dummy, false, xx);
    std::vector<int> ind;
    QArr v((int)col.size() + 1);
    int kk = 0;
    for (auto &kv : col) { ind.push_back(kv.first); v.set(kk++, kv.second); }
    int refactor = 0;
    int urc = qsx_lu_update(lu.h, (int)ind.size(), ind.data(), v.v, position, &refactor);
    nupd++;
    // the caller protocol of basis.c: on blow-up / singular / no-space codes, or when asked, refactor from scratch
    bool need_refactor = refactor != 0 || urc != 0;
    if (urc != 0 && urc != E_FACTOR_BLOWUP && urc != E_UPDATE_SINGULAR_ROW && urc != E_UPDATE_SINGULAR_COL && urc != E_UPDATE_NOSPACE) {
      r.fail(pfx + "update-error", strprintf("ILLfactor_update returned unexpected code %d", urc));
      break;
    }
    if (!new_regular) {
      nsingupd++;
      // a replacement that makes B singular must be reported: error code or refactor request followed by nsing > 0
      if (!need_refactor) { r.fail(pfx + "singular-update-accepted", strprintf("replacing column %d makes the matrix singular, yet ILLfactor_update accepted it silently (dim %d)", position, dim)); break; }
      int ns2 = 0, rc2 = 0;
      bool ok2 = lu.factor(ncols, ns2, rc2);
      if (ok2) { r.fail(pfx + "singular-matrix-not-reported:after-update", "refactorisation of a singular matrix reports nsing=0"); break; }
      r.label("event:singular-update-reported");
      // go back to the last regular matrix
      if (!lu.factor(cols, ns2, rc2)) { r.fail(pfx + "refactor-of-regular-matrix-failed", "cannot refactor the previous regular matrix"); break; }
      updates_since = 0;
      continue;
    }
    cols = ncols;
    if (need_refactor) {
      nrefac++;
      r.label(urc == E_UPDATE_NOSPACE ? "event:update-nospace" : (urc ? "event:update-error-code" : "event:refactor-requested"));
      int ns2 = 0, rc2 = 0;
      if (!lu.factor(cols, ns2, rc2)) { r.fail(pfx + "regular-matrix-called-singular:after-update", strprintf("refactorisation after update: rc=%d nsing=%d on a regular matrix", rc2, ns2)); break; }
      updates_since = 0;
    } else { updates_since++; maxchain = std::max(maxchain, updates_since); }
    if (!verify_solves(lu, cols, r, pfx + (need_refactor ? "after-refactor" : "after-update"), (uint64_t)nupd * 31 + 5)) break;
  }
  // exhaustive unit / two-entry right-hand sides against the final factorization (with its eta file) for the
  // dimensions where they take the hyper-sparse path
  if (ok && r.verdict == PASS && dim >= 21 && dim <= 64 && updates_since >= 2) {
    r.label("deep-verify:all-units-and-pairs");
    verify_solves(lu, cols, r, pfx + "final", 7, 1);
  }
  r.label(dim >= 21 ? "dim:21+" : "dim:<21");
  r.label(strprintf("update-chain:%s", maxchain == 0 ? "0" : (maxchain < 3 ? "1-2" : (maxchain < 10 ? "3-9" : "10+"))));
  r.nontrivial = dim >= 4 && (maxchain >= 3 || nsingupd > 0 || nrefac > 0);
  r.sample = strprintf("dim %d %s, %d updates (longest chain without refactor %d, %d refactors, %d singular replacements)\n", dim, sn[structure], nupd, maxchain, nrefac, nsingupd) + c.str().substr(0, 800);
}

void register_c13() {
  register_property({"C13", "api", c13_gen_api, c13_run_api, 4, 240, false});
  register_property({"C13", "lu", c13_gen_lu, c13_run_lu, 12, 240, false});
}

}  // namespace qsx

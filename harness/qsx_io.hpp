#pragma once
#include "qsx.hpp"
namespace qsx {

// ---- reading / writing through the library
struct ReadResult {
  mpq_QSprob p = nullptr;
  std::vector<std::string> errors;      // messages delivered to the error collector
  int nerrors = 0, nwarnings = 0;
  long lines_consumed = 0;
};
// in-memory read through the public line-reader interface; collector optional
void sut_read_text(const std::string &text, const char *type, bool use_collector, ReadResult &out);
// read a file by name (plain / .gz / .bz2 decided by the library from the extension)
mpq_QSprob sut_read_file(const std::string &path, const char *type);
// write to a file in the scratch dir and return its raw bytes; target 0 plain, 1 .gz, 2 .bz2, 3 FILE*
bool sut_write_file(mpq_QSprob p, const char *type, int target, std::string &path_out, std::string *why);
// rename notices the writer issued (old -> new), parsed from the log since mark
std::map<std::string, std::vector<std::string>> rename_notices(size_t logmark);

// ---- equivalence of a re-read problem with the original (the statement's rules)
struct EquivOpts {
  bool allow_range_split = true;        // an R row may come back as G(rhs) + L(rhs+range)
  bool drop_empty_rows = true;
  bool by_interval = false;             // compare row intervals instead of (sense, rhs, range)
  bool match_rows_by_name = true;
  std::map<std::string, std::vector<std::string>> col_renames, row_renames;   // old name -> candidate new names
};
bool model_equiv(const Model &orig, const Model &got, const EquivOpts &o, std::string *why);

// ---- independent emitters: text that DENOTES the model, with lexical choices from the tape
struct EmitStats { std::set<std::string> features; };
// LP format: the model must not contain R rows (not expressible in one row); names must be valid LP names
std::string emit_lp(Tape &t, const Model &m, EmitStats &st);
// MPS format (free form fields)
std::string emit_mps(Tape &t, const Model &m, EmitStats &st);
// exact textual spelling of a rational chosen among the documented literal forms
std::string spell_number(Tape &t, const Q &v, EmitStats &st, bool allow_fraction);
// random model suitable for file formats (valid unique names, every column used, >=1 non-empty row)
void gen_file_model(Tape &t, Model &m, bool allow_range, bool allow_int, int maxm, int maxn, int big);

}  // namespace qsx

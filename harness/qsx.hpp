// qsx.hpp -- shared declarations of the verification harness for qsopt-ex
// (reference model, generic case representation, choice tape, executor)
#pragma once
#include <gmpxx.h>
#include <cstdint>
#include <cstdio>
#include <cstdlib>
#include <cstring>
#include <functional>
#include <map>
#include <set>
#include <sstream>
#include <string>
#include <vector>

extern "C" {
#include "QSopt_ex.h"
}

namespace qsx {

typedef mpq_class Q;

// ---------------------------------------------------------------- infinities
// The library represents infinite bounds in-band by +-1e150 (mpq_ILL_MAXDOUBLE /
// mpq_ILL_MINDOUBLE).  The model uses the very same rationals.
const Q &PINF();
const Q &NINF();
inline bool is_pinf(const Q &q) { return q >= PINF(); }
inline bool is_ninf(const Q &q) { return q <= NINF(); }
inline bool is_fin(const Q &q) { return !is_pinf(q) && !is_ninf(q); }
std::string qstr(const Q &q);              // "inf" / "-inf" / p/q
Q qparse(const std::string &s);            // inverse of qstr
Q qpow2(int k);                            // 2^k, k may be negative
inline mpq_t *qp(Q &q) { return (mpq_t *)q.get_mpq_t(); }   // for 'mpq_t *out' parameters

// ---------------------------------------------------------------- model
struct Col {
  std::string name;
  Q obj, lo, up;
  bool isint = false;
};
struct Row {
  std::string name;
  char sense = 'L';                        // L G E R
  Q rhs, range;                            // range only meaningful for R (rhs <= a.x <= rhs+range)
  std::map<int, Q> a;                      // column index -> non-zero coefficient
};
struct Model {
  std::string name = "p";
  int objsense = 1;                        // 1 = min, -1 = max (QS_MIN / QS_MAX)
  std::vector<Col> cols;
  std::vector<Row> rows;
  int n() const { return (int)cols.size(); }
  int m() const { return (int)rows.size(); }
  int nnz() const;
  int colindex(const std::string &nm) const;   // -1 if absent
  int rowindex(const std::string &nm) const;
  std::string canon() const;               // canonical text (names included)
  std::string text() const;                // same, as ops (parsable)
};
// two models equal (names included); on difference 'why' explains the first one
bool model_equal(const Model &a, const Model &b, std::string *why, bool names = true);
// C03's "moderate bit-size": every finite datum within [1e-30, 1e30] and at most 512 bits (see qsx_core.cpp)
bool model_is_moderate(const Model &m);

// ---------------------------------------------------------------- generic op / case
struct Op {
  std::string k;                           // kind
  std::vector<long> i;
  std::vector<Q> q;
  std::vector<std::string> s;
  Op() {}
  explicit Op(const std::string &kind) : k(kind) {}
  Op &I(long v) { i.push_back(v); return *this; }
  Op &N(const Q &v) { q.push_back(v); q.back().canonicalize(); return *this; }
  Op &S(const std::string &v) { s.push_back(v); return *this; }
  std::string str() const;                 // one line
};
bool op_parse(const std::string &line, Op &out);
struct Case {
  std::vector<Op> ops;
  std::string str() const;
  static bool parse(const std::string &text, Case &out);
  void add_model(const Model &m);          // append "prob"/"col"/"row" ops
};
// read model back from a run of prob/col/row ops starting at pos; pos advanced
bool model_from_ops(const std::vector<Op> &ops, size_t &pos, Model &out);
std::string esc(const std::string &raw);   // printable escaping (no blanks)
std::string unesc(const std::string &e);

// ---------------------------------------------------------------- choice tape
struct Tape {
  const uint32_t *d = nullptr;
  size_t n = 0, pos = 0;
  Tape() {}
  Tape(const std::vector<uint32_t> &v) : d(v.data()), n(v.size()) {}
  // rapidcheck's sized uint32 values are far from uniform in their low bits (value % 4 == 3 for about half of
  // them), so every raw element goes through a bijective mixer first (murmur3 finaliser; 0 stays 0, so a zeroed
  // or exhausted tape still selects the first alternative everywhere)
  static uint32_t mix(uint32_t x) { x ^= x >> 16; x *= 0x85ebca6bu; x ^= x >> 13; x *= 0xc2b2ae35u; x ^= x >> 16; return x; }
  // Large structures need more choices than a sized tape holds.  A generator may switch on 'extend': past its end
  // the tape then continues with a pseudo-random stream seeded by a hash of its own contents (still a pure function
  // of what rapidcheck generated; shrinking the real prefix still simplifies the head of the case).
  bool extend = false;
  uint64_t ext = 0;
  uint32_t u32() {
    if (pos < n) return mix(d[pos++]);
    pos++;
    if (!extend) return 0u;
    if (!ext) { ext = 1469598103934665603ull; for (size_t k = 0; k < n; k++) { ext ^= d[k]; ext *= 1099511628211ull; } ext |= 1; }
    ext ^= ext << 13; ext ^= ext >> 7; ext ^= ext << 17;
    return mix((uint32_t)(ext >> 24));
  }
  uint32_t below(uint32_t k) { return k ? u32() % k : 0u; }
  int range(int lo, int hi) { return hi <= lo ? lo : lo + (int)below((uint32_t)(hi - lo + 1)); }
  bool coin() { return (u32() & 1u) != 0; }
  bool chance(uint32_t num, uint32_t den) { return below(den) + num >= den; }  // P = num/den; an exhausted tape says no
  bool exhausted() const { return !extend && pos >= n; }
};

// ---------------------------------------------------------------- result of one case
enum Verdict { PASS = 0, FAIL = 1, DISCARD = 2, INCONCLUSIVE = 3 };
struct Result {
  int verdict = PASS;
  bool nontrivial = false;
  std::string msg;                         // failure description
  std::string sig;                         // failure signature (known-findings key)
  std::string canon;                       // canonical text for distinct counting (hashed)
  std::string sample;                      // human readable rendering of the case
  std::vector<std::string> labels;         // class labels for the histogram
  void label(const std::string &l) { labels.push_back(l); }
  void fail(const std::string &signature, const std::string &message) {
    if (verdict != FAIL) { verdict = FAIL; sig = signature; msg = message; }
  }
};

// a property = generator (tape -> case) + runner (case -> result)
struct Property {
  const char *id;                          // "C06"
  const char *variant;                     // "" or sub-check name ("api", "exh" ...)
  void (*gen)(Tape &, Case &);
  void (*run)(const Case &, Result &);
  int tape_scale;                          // multiplies rapidcheck size for the tape
  int timeout_s;                           // per case alarm
  bool leakcheck;                          // run LSan after the case (C18)
  bool keep_going = false;                 // record each distinct failure signature and continue (no shrinking)
  std::string (*crash_context)(const Case &) = nullptr;   // appended to sanitizer/crash signatures
};
void register_property(const Property &p);
const Property *find_property(const std::string &id, const std::string &variant);
std::vector<const Property *> all_properties();

uint64_t fnv64(const std::string &s);
std::string strprintf(const char *fmt, ...);

// ---------------------------------------------------------------- known findings
struct KnownFinding { std::string prop, state, key, what; };
const std::vector<KnownFinding> &known_findings();     // loaded from $QSX_KNOWN (jsonl)
bool is_known(const std::string &prop, const std::string &sig);   // state == "known"

// ---------------------------------------------------------------- SUT side (qsx_sut.cpp)
void sut_global_init();                    // QSexactStart, log handler (once, in the parent)
void sut_case_reset();                     // precision 128 etc., in the child before each case
extern std::string g_logbuf;               // everything the library logged in this case
extern long g_logcalls;

struct QArr {                              // owned array of mpq_t
  mpq_t *v = nullptr; int n = 0;
  explicit QArr(int n_);
  ~QArr();
  QArr(const QArr &) = delete;
  void set(int i, const Q &x) { mpq_set(v[i], x.get_mpq_t()); }
  Q get(int i) const { return Q(v[i]); }
};

enum Route { R_LOAD = 0, R_COLS_ROWS, R_ROWS_COLS, R_BULK, R_FILE, R_NROUTES };   // R_FILE: built, written as MPS, read back (exactly sized arrays, row-major copy present)
mpq_QSprob sut_build(const Model &m, int route, std::string *err);
// read the whole problem back through the query API; cross-check redundant routes.
// returns false + why if the query API fails or is inconsistent with itself
bool sut_dump(mpq_QSprob p, Model &out, std::string *why, bool deep = true);
extern bool g_built_via_file;              // the last sut_build really returned a file-read object (route R_FILE can fall back)
// copy lib-allocated mpq array (EGlpNum array with size header) etc. are handled inside

struct Solution {
  int rval = 0, status = 0;
  bool have = false;
  Q value;
  std::vector<Q> x, pi, slack, rc;
};
struct SolveCfg {
  int entry = 0;        // 0 QSexact_solver, 1 mpq_QSopt_primal, 2 mpq_QSopt_dual
  int algo = 1;         // PRIMAL_SIMPLEX=1 / DUAL_SIMPLEX=2 (for QSexact_solver)
  int pprice = 0, dprice = 0;   // 0 = leave default, else QS_PRICE_*
  int scaling = -1;     // -1 leave
  int display = -1;
  int precision = 0;    // 0 leave, else QSexact_set_precision
  int itlim = 0;        // 0 leave
  bool want_x = true, want_y = true, want_basis = false;
  int objlim_kind = 0;  // 0 none, 1 QS_PARAM_OBJULIM, 2 QS_PARAM_OBJLLIM (the dual simplex stops with OBJ_LIMIT beyond it)
  Q objlim;
  std::string str() const;
  Op op() const;
  static SolveCfg from_op(const Op &o);
};
SolveCfg gen_cfg(Tape &t, bool allow_direct);
// run one solve; 'basis' (may be null) is passed to QSexact_solver / loaded for direct entry
void sut_solve(mpq_QSprob p, const SolveCfg &c, QSbasis *basis, Solution &out,
               std::vector<Q> *xfull, std::vector<Q> *y);
// fetch the cached solution through the accessors (all of them, cross-checked)
bool sut_fetch_solution(mpq_QSprob p, Solution &out, std::string *why);
// every solution accessor called on its own, whatever the others answer (ok flags say which returned 0)
struct AccessorProbe {
  bool objval_ok = false, x_ok = false, pi_ok = false, slack_ok = false, rc_ok = false, status_ok = false, basis_ok = false;
  int status = 0, nfail = 0;
  Q objval;
  std::vector<Q> x, pi, slack, rc;
};
void sut_probe_accessors(mpq_QSprob p, AccessorProbe &out);

// ---------------------------------------------------------------- reference side (qsx_ref.cpp)
// exact certificate checkers: return true iff the certificate proves the claim
bool verify_optimal(const Model &m, const std::vector<Q> &x, const std::vector<Q> &pi,
                    Q *value, std::string *why);
bool verify_farkas(const Model &m, const std::vector<Q> &y, std::string *why);
// the weak-duality bound the multipliers pi prove for model m (false if it is infinite: wrong sign somewhere)
bool dual_bound_of(const Model &m, const std::vector<Q> &pi, Q &bound, std::string *why);
bool verify_ray(const Model &m, const std::vector<Q> &x, const std::vector<Q> &d, std::string *why);
bool primal_feasible(const Model &m, const std::vector<Q> &x, std::string *why);
// library conventions for slack and reduced cost, computed from the model
void model_slack_rc(const Model &m, const std::vector<Q> &x, const std::vector<Q> &pi,
                    std::vector<Q> &slack, std::vector<Q> &rc);
// full check of a Solution record against a model (C01 oracle); sig/why on failure
bool check_solution(const Model &m, const Solution &s, std::string *sig, std::string *why);

enum Truth { T_UNKNOWN = 0, T_OPTIMAL = 1, T_INFEASIBLE = 2, T_UNBOUNDED = 3 };
struct RefResult {
  int truth = T_UNKNOWN;
  Q value;
  std::vector<Q> x, y, d;
  long pivots = 0;
  bool dual_infeasible = false;            // only meaningful for INFEASIBLE/UNBOUNDED
};
// self-certifying dense exact simplex; truth != UNKNOWN only with a verified certificate
void ref_solve(const Model &m, RefResult &out, long max_pivots = 20000);

// exact basis arithmetic for C12/C14
struct BasisEval {
  bool singular = false;
  std::vector<Q> x;      // n + m (structurals then logicals)
  std::vector<Q> pi;     // m
  std::vector<Q> dj;     // n + m reduced costs in the *internal min form*
  bool pfeas = false, dfeas = false;
  Q pobj, dobj;          // internal min form
};
void basis_eval(const Model &m, const std::string &cstat, const std::string &rstat, BasisEval &out);

// ---------------------------------------------------------------- generators (qsx_gen.cpp)
struct GenOpts {
  int maxm = 8, maxn = 8;
  int minm = 0, minn = 1;
  int bigness = 1;       // 0 small ints only, 1 mixed pools, 2 include huge/tiny
  bool allow_range = true, allow_int = false;
  bool unique_names = true;
};
Q gen_num(Tape &t, int bigness);                      // may be 0
Q gen_nz(Tape &t, int bigness);                       // non-zero
std::string gen_name(Tape &t, const char *prefix, int idx);
struct GenLP {
  Model m;
  std::string family;
  int expect = T_UNKNOWN;                  // truth known by construction
  Q expect_value;
  std::vector<Q> wx, wy, wd;               // witnesses
  std::string hint_cs, hint_rs;            // a basis worth warm-starting from (family specific), may be empty
};
void gen_lp(Tape &t, const GenOpts &o, GenLP &out);   // mixture of all families
void gen_lp_family(Tape &t, const GenOpts &o, int family, GenLP &out);
enum { F_RAND = 0, F_OPT, F_INF, F_FACE, F_UNB, F_ILL, F_CYC, F_SHAPE, F_FIXB, F_DUP, F_COVER, F_NFAM };

// ---------------------------------------------------------------- misc
std::string read_file(const std::string &path, bool *ok = nullptr);
bool write_file(const std::string &path, const std::string &data);
std::string scratch_dir();                 // per process private directory (created on demand)
void clean_dir(const std::string &d);
void scrub_stack();

}  // namespace qsx

// C01 C02 C03 C04 -- soundness of OPTIMAL / INFEASIBLE, agreement with the mathematical
// truth, independence of how the solver is driven
#include "qsx.hpp"

namespace qsx {

// ---------------------------------------------------------------- basis helpers
QSbasis *make_basis(const std::string &cstat, const std::string &rstat) {
  QSbasis *B = (QSbasis *)malloc(sizeof(QSbasis));
  B->nstruct = (int)cstat.size();
  B->nrows = (int)rstat.size();
  B->cstat = (char *)malloc(cstat.size() + 1);
  B->rstat = (char *)malloc(rstat.size() + 1);
  memcpy(B->cstat, cstat.data(), cstat.size());
  memcpy(B->rstat, rstat.data(), rstat.size());
  return B;
}

// arbitrary type-correct basis: all logicals basic, then k structurals swapped in for the
// logical of a row in which they have a non-zero (keeps the matrix likely non-singular)
void gen_basis(Tape &t, const Model &m, std::string &cstat, std::string &rstat) {
  int n = m.n(), mm = m.m();
  cstat.assign(n, '0');
  rstat.assign(mm, '1');
  auto nb_col = [&](int j) {
    const Col &c = m.cols[j];
    bool fl = is_fin(c.lo), fu = is_fin(c.up);
    if (!fl && !fu) return '3';
    if (fl && fu) return t.coin() ? '2' : '0';
    return fl ? '0' : '2';
  };
  for (int j = 0; j < n; j++) cstat[j] = nb_col(j);
  int k = mm ? (int)t.below((uint32_t)std::min(n, mm) + 1) : 0;
  for (int s = 0; s < k; s++) {
    int i = (int)t.below((uint32_t)mm);
    if (rstat[i] != '1' || m.rows[i].a.empty()) continue;
    auto it = m.rows[i].a.begin();
    std::advance(it, t.below((uint32_t)m.rows[i].a.size()));
    int j = it->first;
    if (cstat[j] == '1') continue;
    cstat[j] = '1';
    rstat[i] = (m.rows[i].sense == 'R' && t.coin()) ? '2' : '0';
  }
}

// ---------------------------------------------------------------- case layout
//   prob/col/row...   model
//   meta | family-expect | value |            (expect: Truth by construction, 0 = unknown)
//   route | r
//   warm | kind | | cstat rstat                kind 0 none, 1 optimal basis of this LP (computed by a
//                                              first exact solve), 2 explicit arbitrary basis, 3 optimal
//                                              basis under another objective (first solve with c' = op q)
//   cfg ...                                    one or more configurations
static void put_meta(Case &c, const GenLP &g) {
  Op o("meta");
  o.I(g.expect).N(g.expect_value).S(g.family);
  c.ops.push_back(o);
}

static void gen_warm(Tape &t, const Model &m, Case &c, int kinds, const GenLP *g = nullptr) {
  int k = (int)t.below((uint32_t)kinds);
  bool hinted = g && !g->hint_cs.empty() && kinds >= 3 && t.chance(2, 3);
  if (hinted) k = 2;
  Op o("warm");
  o.I(k);
  if (k == 2) {
    std::string cs, rs;
    if (hinted) { cs = g->hint_cs; rs = g->hint_rs; }
    else gen_basis(t, m, cs, rs);
    o.S(cs).S(rs);
  } else if (k == 3) {
    for (int j = 0; j < m.n(); j++) o.N(gen_num(t, 1));
  }
  c.ops.push_back(o);
}

static void c01_gen(Tape &t, Case &c) {
  GenOpts o;
  o.maxm = 2 + (int)t.below(9); o.maxn = 2 + (int)t.below(9); o.bigness = 2;
  if (t.chance(1, 12)) { o.maxm = 25; o.maxn = 25; }
  GenLP g;
  gen_lp(t, o, g);
  c.add_model(g.m);
  put_meta(c, g);
  c.ops.push_back(Op("route").I(t.below(R_NROUTES)));
  gen_warm(t, g.m, c, 4, &g);
  SolveCfg cfg = gen_cfg(t, true);
  if (!g.hint_cs.empty() && t.chance(2, 3)) cfg.algo = PRIMAL_SIMPLEX;
  if (cfg.entry != 0 && t.chance(1, 5)) cfg.itlim = 1 + (int)t.below(6);
  // objective limits: near the optimum when it is known by construction, else a small number
  if (t.chance(1, 6)) {
    cfg.objlim_kind = 1 + (int)t.below(2);
    Q base = g.expect == T_OPTIMAL ? g.expect_value : Q(0);
    cfg.objlim = base + Q((long)t.below(5) - 2) * (t.coin() ? Q(1) : Q(1, 1000));
  }
  c.ops.push_back(cfg.op());
}
static void c02_gen(Tape &t, Case &c) {
  GenOpts o;
  o.maxm = 2 + (int)t.below(8); o.maxn = 2 + (int)t.below(8); o.bigness = 2;
  static const int fam[] = {F_INF, F_INF, F_INF, F_FACE, F_FACE, F_RAND, F_SHAPE, F_INF, F_OPT};
  GenLP g;
  gen_lp_family(t, o, fam[t.below(9)], g);
  c.add_model(g.m);
  put_meta(c, g);
  c.ops.push_back(Op("route").I(t.below(R_NROUTES)));
  gen_warm(t, g.m, c, 3);
  SolveCfg cfg = gen_cfg(t, true);
  if (t.chance(3, 4)) cfg.entry = 0;
  c.ops.push_back(cfg.op());
}
static void c03_gen(Tape &t, Case &c) {
  GenOpts o;
  o.maxm = 2 + (int)t.below(7); o.maxn = 2 + (int)t.below(7); o.bigness = 1;   // moderate bit size
  GenLP g;
  // unbounded answers cost the whole precision ladder: keep their share small
  static const int fam[] = {F_OPT, F_OPT, F_ILL, F_INF, F_FACE, F_SHAPE, F_RAND, F_CYC, F_OPT, F_ILL, F_INF, F_FACE, F_SHAPE, F_RAND,
                            F_OPT, F_ILL, F_INF, F_CYC, F_RAND, F_UNB, F_COVER, F_COVER, F_FIXB, F_DUP, F_COVER, F_COVER, F_COVER, F_COVER};
  gen_lp_family(t, o, fam[t.below(28)], g);
  c.add_model(g.m);
  put_meta(c, g);
  c.ops.push_back(Op("route").I(t.below(R_NROUTES)));
  c.ops.push_back(Op("warm").I(0));
  SolveCfg cfg;                 // default limits, default everything
  cfg.algo = t.coin() ? DUAL_SIMPLEX : PRIMAL_SIMPLEX;
  c.ops.push_back(cfg.op());
}
static void c04_gen(Tape &t, Case &c) {
  GenOpts o;
  o.maxm = 2 + (int)t.below(7); o.maxn = 2 + (int)t.below(7); o.bigness = 1;
  GenLP g;
  static const int fam[] = {F_OPT, F_OPT, F_ILL, F_INF, F_FACE, F_SHAPE, F_RAND, F_CYC, F_OPT, F_ILL, F_INF, F_FACE, F_RAND, F_FIXB, F_DUP, F_COVER};
  int fk = fam[t.below(16)];
  if (t.chance(1, 14)) { fk = F_DUP; o.minn = 400; }     // wide: >= 400 columns take the crash-basis path
  gen_lp_family(t, o, fk, g);
  c.add_model(g.m);
  put_meta(c, g);
  c.ops.push_back(Op("route").I(t.below(R_NROUTES)));
  // a set of configurations: always both algorithms, scaling on/off, a warm start from an optimal
  // basis, one from another objective, an arbitrary one, repeated solves of the same object
  int k = 6 + (int)t.below(5);
  for (int s = 0; s < k; s++) {
    gen_warm(t, g.m, c, s < 4 ? s + 1 > 3 ? 4 : s + 1 : 4, &g);
    SolveCfg cfg = gen_cfg(t, true);
    if (s == 0) { cfg.entry = 0; cfg.algo = PRIMAL_SIMPLEX; cfg.scaling = 1; }
    if (s == 1) { cfg.entry = 0; cfg.algo = DUAL_SIMPLEX; cfg.scaling = 0; }
    if (s == 2) { cfg.entry = 1; }
    if (s == 3) { cfg.entry = 2; }
    c.ops.push_back(cfg.op());
    if (t.chance(1, 3)) { Op again("again"); again.I(t.below(3)); c.ops.push_back(again); }
  }
}

// ---------------------------------------------------------------- runner
struct SolveOutcome {
  Solution s;
  std::vector<Q> xfull, y;
  std::string cstat, rstat;     // basis handed back (if requested)
  bool have_basis = false;
};

static bool moderate(const Model &m) { return model_is_moderate(m); }
static bool definitive(int st) { return st == QS_LP_OPTIMAL || st == QS_LP_INFEASIBLE || st == QS_LP_UNBOUNDED; }
static const char *stname(int st) {
  switch (st) {
  case QS_LP_OPTIMAL: return "OPTIMAL";
  case QS_LP_INFEASIBLE: return "INFEASIBLE";
  case QS_LP_UNBOUNDED: return "UNBOUNDED";
  case QS_LP_ITER_LIMIT: return "ITER_LIMIT";
  case QS_LP_TIME_LIMIT: return "TIME_LIMIT";
  case QS_LP_UNSOLVED: return "UNSOLVED";
  case QS_LP_MODIFIED: return "MODIFIED";
  default: return "OTHER";
  }
}
static int truth_to_status(int t) { return t == T_OPTIMAL ? QS_LP_OPTIMAL : t == T_INFEASIBLE ? QS_LP_INFEASIBLE : t == T_UNBOUNDED ? QS_LP_UNBOUNDED : 0; }

// obtains the warm start basis described by op w for problem p / model m; nullptr = none
static QSbasis *warm_basis(const Model &m, const Op &w, int route, Result &r) {
  int kind = w.i.empty() ? 0 : (int)w.i[0];
  if (kind == 0) return nullptr;
  if (kind == 2) {
    if (w.s.size() < 2 || (int)w.s[0].size() != m.n() || (int)w.s[1].size() != m.m()) return nullptr;
    r.label("warm:arbitrary");
    return make_basis(w.s[0], w.s[1]);
  }
  Model m2 = m;
  if (kind == 3) {
    for (int j = 0; j < m2.n() && j < (int)w.q.size(); j++) m2.cols[j].obj = w.q[j];
    r.label("warm:other-objective");
  } else r.label("warm:optimal");
  std::string err;
  mpq_QSprob p2 = sut_build(m2, route, &err);
  if (!p2) return nullptr;
  QSbasis *B = (QSbasis *)calloc(1, sizeof(QSbasis));
  int st = 0;
  QArr x(m2.n() + m2.m()), y(m2.m());
  int rv = QSexact_solver(p2, x.v, y.v, B, DUAL_SIMPLEX, &st);
  mpq_QSfree_prob(p2);
  QSexact_set_precision(128);
  if (rv || st != QS_LP_OPTIMAL || B->nstruct != m.n() || B->nrows != m.m()) {
    mpq_QSfree_basis(B);
    return nullptr;
  }
  return B;
}

// checks shared by all four properties on one solve outcome
// The gate every OPTIMAL / INFEASIBLE answer of the exact driver passes through is itself callable:
// QSexact_optimal_test(p, x, y, basis) and QSexact_infeasible_test(p, y).  Whatever they ACCEPT must be a
// certificate for the independent checkers too.  They are fed the solver's own vectors and small perturbations
// of them (one structural value, one logical value, one multiplier, all-zero / negated multipliers), each on a
// fresh copy of the problem because the tests install what they accept.
static void probe_optimal_test(const Model &m, mpq_QSprob p, const Solution &acc, Result &r) {
  int n = m.n(), mm = m.m();
  if (n == 0 || mm == 0 || (int)acc.x.size() < n || (int)acc.slack.size() < mm || (int)acc.pi.size() < mm) return;
  QSbasis *B = mpq_QSget_basis(p);
  if (!B) { r.label("optimal-test:no-basis"); return; }
  uint64_t h = fnv64(qstr(acc.value) + ":" + std::to_string(n * 131 + mm));
  for (int kind = 0; kind < 5 && r.verdict == PASS; kind++) {
    std::vector<Q> x(acc.x.begin(), acc.x.begin() + n), sl(acc.slack.begin(), acc.slack.begin() + mm), y(acc.pi.begin(), acc.pi.begin() + mm);
    const char *kn = "own";
    switch (kind) {
    case 1: x[h % (uint64_t)n] += (h >> 8) & 1 ? Q(1) : Q(1, 1000000); kn = "x-perturbed"; break;
    case 2: sl[(h >> 16) % (uint64_t)mm] += (h >> 9) & 1 ? Q(1) : Q(-1, 1000); kn = "slack-perturbed"; break;
    case 3: y[(h >> 24) % (uint64_t)mm] += (h >> 10) & 1 ? Q(1) : Q(-1, 7); kn = "pi-perturbed"; break;
    case 4: for (auto &v : y) v = 0; kn = "pi-zero"; break;
    default: break;
    }
    mpq_QSprob q = mpq_QScopy_prob(p, "probe");
    if (!q) break;
    QArr xa(n + mm), ya(mm);
    for (int j = 0; j < n; j++) xa.set(j, x[j]);
    for (int i = 0; i < mm; i++) { xa.set(n + i, sl[i]); ya.set(i, y[i]); }
    int acc_rc = QSexact_optimal_test(q, xa.v, ya.v, B);
    QSexact_set_precision(128);
    if (acc_rc == 1) {
      // the test may have repaired the primal vector in place: judge what it accepted
      std::vector<Q> x2, y2;
      for (int j = 0; j < n; j++) x2.push_back(xa.get(j));
      for (int i = 0; i < mm; i++) y2.push_back(ya.get(i));
      std::string why;
      r.label(std::string("optimal-test:accepts:") + kn);
      if (!verify_optimal(m, x2, y2, nullptr, &why))
        r.fail(std::string("optimal-test-accepts-non-certificate:") + kn, std::string("QSexact_optimal_test accepted (x, pi) [") + kn + "] that is not an optimality certificate: " + why);
    } else r.label(std::string("optimal-test:rejects:") + kn);
    mpq_QSfree_prob(q);
  }
  mpq_QSfree_basis(B);
}
static void probe_infeasible_test(const Model &m, mpq_QSprob p, const std::vector<Q> &y0, Result &r) {
  int mm = m.m();
  if (mm == 0 || (int)y0.size() < mm) return;
  uint64_t h = fnv64(std::to_string(mm * 977 + m.n()) + qstr(y0[0]));
  for (int kind = 0; kind < 4 && r.verdict == PASS; kind++) {
    std::vector<Q> y(y0.begin(), y0.begin() + mm);
    const char *kn = "own";
    switch (kind) {
    case 1: y[h % (uint64_t)mm] += (h >> 8) & 1 ? Q(1) : Q(-1); kn = "one-perturbed"; break;
    case 2: for (auto &v : y) v = 0; kn = "zero"; break;
    case 3: { size_t i = (h >> 16) % (uint64_t)mm; y[i] = -y[i] * 3; kn = "one-negated"; break; }
    default: break;
    }
    mpq_QSprob q = mpq_QScopy_prob(p, "probe");
    if (!q) break;
    QArr ya(mm);
    for (int i = 0; i < mm; i++) ya.set(i, y[i]);
    int acc_rc = QSexact_infeasible_test(q, ya.v);
    QSexact_set_precision(128);
    if (acc_rc != 0) {
      std::string why;
      r.label(std::string("infeasible-test:accepts:") + kn);
      if (!verify_farkas(m, y, &why))
        r.fail(std::string("infeasible-test-accepts-non-certificate:") + kn, std::string("QSexact_infeasible_test accepted multipliers [") + kn + "] that prove nothing: " + why);
    } else r.label(std::string("infeasible-test:rejects:") + kn);
    mpq_QSfree_prob(q);
  }
}

static void judge(const char *prop, const Model &m, const SolveCfg &cfg, mpq_QSprob p, SolveOutcome &so,
                  int truth, const Q &truth_value, Result &r) {
  Solution &s = so.s;
  std::string tag = std::string(cfg.entry == 0 ? "exact" : (cfg.entry == 1 ? "primal" : "dual"));
  r.label(tag + ":" + (s.rval ? "error" : stname(s.status)));
  if (getenv("QSX_DEBUG")) fprintf(stderr, "DEBUG solve %s rval=%d status=%d log=%s\n", cfg.str().c_str(), s.rval, s.status, g_logbuf.c_str());
  if (s.rval != 0) return;     // a failed call claims nothing (C03/C04 judge this separately)
  if (s.status == QS_LP_OPTIMAL) {
    std::string why, sig;
    Solution acc;
    acc.status = s.status;
    size_t logmark = g_logbuf.size();
    if (!sut_fetch_solution(p, acc, &why)) { r.fail("accessor:" + why.substr(0, 40), tag + " reported OPTIMAL but " + why + "\nlog: " + g_logbuf.substr(logmark, 600)); return; }
    s.value = acc.value; s.x = acc.x; s.pi = acc.pi; s.slack = acc.slack; s.rc = acc.rc; s.have = true;
    if (cfg.entry == 0) {
      if (cfg.want_x) {
        for (int j = 0; j < m.n(); j++) if (so.xfull[j] != acc.x[j]) { r.fail("out-param:x", "x returned by QSexact_solver differs from QSget_x_array"); return; }
        for (int i = 0; i < m.m(); i++) if (so.xfull[m.n() + i] != acc.slack[i]) { r.fail("out-param:slack", "slack part of x returned by QSexact_solver differs from QSget_slack_array"); return; }
      }
      if (cfg.want_y)
        for (int i = 0; i < m.m(); i++) if (so.y[i] != acc.pi[i]) { r.fail("out-param:y", "y returned by QSexact_solver differs from QSget_pi_array"); return; }
    }
    int qst = 0;
    mpq_QSget_status(p, &qst);
    if (qst != QS_LP_OPTIMAL) { r.fail("status-accessor", strprintf("call reported OPTIMAL but QSget_status says %d", qst)); return; }
    if (!check_solution(m, acc, &sig, &why)) { r.fail(sig + ":" + tag, tag + " [" + cfg.str() + "] reported OPTIMAL but the certificate fails: " + why); return; }
    if (truth == T_OPTIMAL && acc.value != truth_value) { r.fail("value-vs-truth:" + tag, "certified value " + qstr(acc.value) + " differs from the reference optimum " + qstr(truth_value)); return; }
    if (truth == T_INFEASIBLE || truth == T_UNBOUNDED) { r.fail("status-vs-truth:" + tag, std::string("OPTIMAL reported although the reference proves ") + (truth == T_INFEASIBLE ? "INFEASIBLE" : "UNBOUNDED")); return; }
    if (std::string(prop) == "C01") probe_optimal_test(m, p, acc, r);
  } else if (std::string(prop) == "C01") {
    // C01 speaks about OPTIMAL answers only
  } else if (s.status == QS_LP_INFEASIBLE) {
    if (truth == T_OPTIMAL || truth == T_UNBOUNDED) {
      r.fail("infeasible-but-feasible:" + tag + (truth == T_UNBOUNDED ? ":truth-unbounded" : ":truth-optimal"),
             tag + " [" + cfg.str() + "] reported INFEASIBLE but a feasible point is known");
      return;
    }
    if (cfg.entry == 0) {
      if (cfg.want_y) {
        std::string why;
        if (!verify_farkas(m, so.y, &why)) { r.fail("farkas:" + tag, "INFEASIBLE reported but the returned multipliers prove nothing: " + why); return; }
      }
      int qst = 0;
      mpq_QSget_status(p, &qst);
      if (qst != QS_LP_INFEASIBLE) { r.fail("status-accessor", strprintf("call reported INFEASIBLE but QSget_status says %d", qst)); return; }
      if (cfg.want_y && std::string(prop) == "C02") probe_infeasible_test(m, p, so.y, r);
    } else {
      // direct simplex: multipliers checked but only reported as a label (the property speaks of the exact solver)
      QArr pi(m.m());
      if (mpq_QSget_infeas_array(p, pi.v) == 0) {
        std::vector<Q> y;
        for (int i = 0; i < m.m(); i++) y.push_back(pi.get(i));
        r.label(verify_farkas(m, y, nullptr) ? "aux_farkas_ok" : "aux_farkas_fail");
      }
    }
  } else if (s.status == QS_LP_UNBOUNDED) {
    if (truth == T_OPTIMAL || truth == T_INFEASIBLE) { r.fail("status-vs-truth:" + tag, std::string("UNBOUNDED reported although the reference proves ") + (truth == T_OPTIMAL ? "OPTIMAL" : "INFEASIBLE")); return; }
  }
  (void)prop;
}

static void solve_run(const Case &c, Result &r, const char *prop) {
  size_t pos = 0;
  Model m;
  if (!model_from_ops(c.ops, pos, m)) { r.verdict = DISCARD; return; }
  int expect = 0, route = 0;
  Q expect_value;
  std::string family;
  if (pos < c.ops.size() && c.ops[pos].k == "meta") {
    const Op &o = c.ops[pos++];
    expect = o.i.empty() ? 0 : (int)o.i[0];
    if (!o.q.empty()) expect_value = o.q[0];
    if (!o.s.empty()) family = o.s[0];
  }
  if (pos < c.ops.size() && c.ops[pos].k == "route") route = (int)c.ops[pos++].i[0];
  r.label("family:" + family.substr(0, family.find('/')));
  // ---- truth: reference solver (self-certifying); construction truth is cross-checked against it
  int truth = T_UNKNOWN;
  Q truth_value;
  bool small = m.n() + m.m() <= 40;
  RefResult ref;
  if (small) ref_solve(m, ref);
  if (ref.truth != T_UNKNOWN) { truth = ref.truth; truth_value = ref.value; r.label("truth:ref"); }
  else if (expect == T_OPTIMAL || expect == T_INFEASIBLE || expect == T_UNBOUNDED) {
    // large case: trust the construction only for OPTIMAL (witness is re-verified below via the solution) -- not used as oracle otherwise
    r.label("truth:none");
  } else r.label("truth:none");
  if (ref.truth != T_UNKNOWN && expect != T_UNKNOWN && ref.truth != expect) {
    // the generator's own claim is wrong: a harness defect, never a finding
    r.verdict = INCONCLUSIVE; r.msg = "generator-truth-mismatch " + family; return;
  }
  if (truth != T_UNKNOWN) r.label(std::string("truth=") + (truth == T_OPTIMAL ? "OPTIMAL" : truth == T_INFEASIBLE ? "INFEASIBLE" : "UNBOUNDED"));
  std::string err;
  mpq_QSprob p = sut_build(m, route, &err);
  if (!p) { r.fail("build:" + err, err); return; }
  std::string prop_s = prop;
  int ndef = 0;
  bool have_first = false;
  int first_status = 0;
  Q first_value;
  std::string first_cfg;
  QSbasis *warm = nullptr;
  SolveCfg lastcfg;
  bool nontrivial_opt = false, nontrivial_inf = false;
  bool is_moderate = moderate(m);
  bool nondefault_sticky = false;   // a pricing rule or an iteration limit has been set on this object (parameters persist)
  if (!is_moderate) r.label("immoderate-data");
  for (; pos < c.ops.size() && r.verdict == PASS; pos++) {
    const Op &o = c.ops[pos];
    if (o.k == "warm") {
      if (warm) { mpq_QSfree_basis(warm); warm = nullptr; }
      warm = warm_basis(m, o, route, r);
      continue;
    }
    if (o.k != "cfg" && o.k != "again") continue;
    SolveCfg cfg = o.k == "cfg" ? SolveCfg::from_op(o) : lastcfg;
    if (o.k == "again") { cfg.entry = o.i.empty() ? 0 : (int)o.i[0] % 3; r.label("repeat-solve"); }
    lastcfg = cfg;
    if (cfg.entry != 0 && cfg.itlim == 0) cfg.itlim = std::max(2000, 50 * (m.n() + m.m()));   // exact Dantzig pricing may cycle
    if (cfg.pprice != 0 || cfg.dprice != 0) nondefault_sticky = true;
    // a non-default pricing rule may cycle in the mpf stages as well (Kuhn/Beale under Dantzig): cap the work
    if (prop_s == "C04" && cfg.entry == 0 && nondefault_sticky && cfg.itlim == 0) cfg.itlim = std::max(300, 20 * (m.n() + m.m()));   // x 13 stages, mpf iterations are slow
    if (cfg.itlim != 0) nondefault_sticky = true;
    SolveOutcome so;
    QSbasis *B = nullptr;
    if (warm) { B = make_basis(std::string(warm->cstat, warm->nstruct), std::string(warm->rstat, warm->nrows)); }
    else if (cfg.entry == 0 && cfg.want_basis) B = (QSbasis *)calloc(1, sizeof(QSbasis));
    sut_solve(p, cfg, B, so.s, &so.xfull, &so.y);
    if (B) mpq_QSfree_basis(B);
    QSexact_set_precision(128);
    r.label("cfg:algo" + std::to_string(cfg.algo) + (cfg.entry ? "" : "/exact"));
    r.label("cfg:pp" + std::to_string(cfg.pprice));
    r.label("cfg:dp" + std::to_string(cfg.dprice));
    r.label("cfg:scale" + std::to_string(cfg.scaling));
    r.label("cfg:prec" + std::to_string(cfg.precision));
    if (cfg.objlim_kind) r.label(cfg.objlim_kind == 1 ? "cfg:objulim" : "cfg:objllim");
    judge(prop, m, cfg, p, so, truth, truth_value, r);
    if (r.verdict != PASS) break;
    const Solution &s = so.s;
    bool def = s.rval == 0 && definitive(s.status);
    if (def) ndef++;
    if (s.rval == 0 && s.status == QS_LP_OPTIMAL) {
      bool tightdual = false;
      for (int i = 0; i < m.m(); i++) if (s.pi[i] != 0) tightdual = true;
      if (m.m() >= 1 && m.n() >= 2 && tightdual) nontrivial_opt = true;
    }
    if (s.rval == 0 && s.status == QS_LP_INFEASIBLE && cfg.entry == 0) {
      int nzm = 0;
      for (auto &v : so.y) if (v != 0) nzm++;
      if (nzm >= 2) nontrivial_inf = true;
      if (family.find("margin2^") != std::string::npos) r.label("infeasible-below-double-margin");
    }
    if (family.rfind("F-face", 0) == 0 && s.rval == 0 && s.status == QS_LP_OPTIMAL) r.label("face-solved-optimal");
    // ---- C03: the exact driver with default limits must deliver the truth
    if (prop_s == "C03" && cfg.entry == 0) {
      if (truth == T_UNKNOWN) { r.verdict = INCONCLUSIVE; r.msg = "reference could not certify the truth"; break; }
      if (s.rval == 0 && !definitive(s.status) && !is_moderate) { r.verdict = DISCARD; r.label("discard:immoderate-nondefinitive"); break; }
      if (s.rval != 0 || !definitive(s.status)) { r.fail("nondefinitive:exact", strprintf("QSexact_solver returned rval=%d status=%s on a well-formed LP whose truth is %d", s.rval, stname(s.status), truth)); break; }
      if (s.status != truth_to_status(truth)) { r.fail("status-vs-truth:exact", strprintf("QSexact_solver says %s, the certified truth is %d", stname(s.status), truth)); break; }
    }
    // ---- C04: all definitive answers identical
    if (prop_s == "C04") {
      // The statement compares definitive answers.  A non-definitive answer of the exact driver is judged
      // only where C03 promises a definitive one: moderate data, default pricing, no iteration limit.
      if (cfg.entry == 0 && s.rval == 0 && !definitive(s.status) && (!is_moderate || nondefault_sticky)) {
        r.label(!is_moderate ? "exact:nondefinitive-immoderate" : "exact:nondefinitive-nondefault-config");
        continue;
      }
      if (cfg.entry == 0 && (s.rval != 0 || !definitive(s.status)) && truth != T_UNKNOWN) {
        r.fail("nondefinitive:exact", strprintf("QSexact_solver [%s] returned rval=%d status=%s", cfg.str().c_str(), s.rval, stname(s.status)));
        break;
      }
      if (!def) {
        if (cfg.entry != 0) {
          if (s.rval == 0 && s.status == QS_LP_ITER_LIMIT) r.label("direct:iter-cap");
          else if (cfg.entry == 2 && s.status == QS_LP_UNSOLVED) r.label("nondefinitive_by_design:dual-simplex-dual-infeasible");
          else r.label("direct:nondefinitive");
        }
        continue;
      }
      if (!have_first) { have_first = true; first_status = s.status; first_value = s.value; first_cfg = cfg.str(); }
      else {
        if (s.status != first_status) { r.fail("config-dependent-status", "status " + std::string(stname(s.status)) + " under [" + cfg.str() + "] but " + stname(first_status) + " under [" + first_cfg + "]"); break; }
        if (s.status == QS_LP_OPTIMAL && s.value != first_value) { r.fail("config-dependent-value", "value " + qstr(s.value) + " under [" + cfg.str() + "] but " + qstr(first_value) + " under [" + first_cfg + "]"); break; }
      }
    }
  }
  if (warm) mpq_QSfree_basis(warm);
  mpq_QSfree_prob(p);
  if (prop_s == "C01") r.nontrivial = nontrivial_opt;
  else if (prop_s == "C02") r.nontrivial = nontrivial_inf || (family.rfind("F-face", 0) == 0 && ndef > 0);
  else if (prop_s == "C03") r.nontrivial = truth != T_UNKNOWN && (m.m() >= 1 && m.n() >= 2);
  else r.nontrivial = ndef >= 4 && truth != T_UNKNOWN && m.m() >= 1 && m.n() >= 2;
  r.sample = c.str().substr(0, 2500);
}

static void c01_run(const Case &c, Result &r) { solve_run(c, r, "C01"); }
static void c02_run(const Case &c, Result &r) { solve_run(c, r, "C02"); }
static void c03_run(const Case &c, Result &r) { solve_run(c, r, "C03"); }
static void c04_run(const Case &c, Result &r) { solve_run(c, r, "C04"); }

void register_solve() {
  register_property({"C01", "", c01_gen, c01_run, 4, 120, false});
  register_property({"C02", "", c02_gen, c02_run, 4, 120, false});
  register_property({"C03", "", c03_gen, c03_run, 4, 120, false});
  register_property({"C04", "", c04_gen, c04_run, 6, 240, false});
}

}  // namespace qsx

// C07 -- invalid arguments are rejected with an error and leave the problem untouched
#include "qsx.hpp"
#include "qsx_ops.hpp"
#include <climits>

extern "C" { void qsx_mpq_free(mpq_t *a); }

namespace qsx {

QSbasis *make_basis(const std::string &cstat, const std::string &rstat);
void gen_start_model(Tape &t, int maxm, int maxn, int big, bool allow_range, Model &m);

// ---- table of (function, corrupted argument) probes ------------------------------------
enum Fn {
  F_DELROW, F_DELROWS, F_DELNAMEDROW, F_DELNAMEDROWS, F_DELCOL, F_DELCOLS, F_DELNAMEDCOL, F_DELNAMEDCOLS,
  F_CHGSENSE_IDX, F_CHGSENSE_SENSE, F_CHGSENSES_IDX, F_CHGSENSES_SENSE,
  F_CHGCOEF_ROW, F_CHGCOEF_COL, F_CHGOBJ, F_CHGRHS, F_CHGRANGE_IDX, F_CHGRANGE_NONR,
  F_CHGBOUND_IDX, F_CHGBOUND_LU, F_CHGBOUNDS_IDX, F_CHGBOUNDS_LU, F_OBJSENSE,
  F_NEWCOL_DUP, F_ADDCOL_DUP, F_ADDCOL_ROWIDX, F_ADDCOLS_DUP, F_ADDCOLS_ROWIDX,
  F_NEWROW_DUP, F_NEWROW_SENSE, F_ADDROW_DUP, F_ADDROW_COLIDX, F_ADDROW_SENSE, F_ADDROWS_DUP, F_ADDROWS_COLIDX,
  F_ADDRROW_COLIDX, F_ADDRROWS_DUP,
  F_GETBOUND_IDX, F_GETBOUND_LU, F_GETCOEF_ROW, F_GETCOEF_COL, F_GETOBJLIST, F_GETBOUNDSLIST, F_GETCOLSLIST, F_GETROWSLIST,
  F_GETRROWSLIST, F_COLINDEX, F_ROWINDEX, F_NAMEDX, F_NAMEDRC, F_NAMEDPI, F_NAMEDSLACK, F_BINVROW, F_TABLEAUROW,
  F_SETPARAM_ID, F_SETPARAM_VAL, F_GETPARAM_ID, F_SETPARAMQ_ID, F_GETPARAMQ_ID,
  F_LOADBASIS_SIZE, F_LOADBASISARR_BYTES, F_LOADBASISARR_COUNT, F_LOADBASISARR_UPPER_NONRANGED,
  F_PIVOTIN_ROW, F_PIVOTIN_COL, F_READLOADBASIS_MISSING, F_WRITEBASIS_SIZE,
  F_NFUNCS
};
static const char *fn_name[] = {
  "QSdelete_row", "QSdelete_rows", "QSdelete_named_row", "QSdelete_named_rows_list", "QSdelete_col", "QSdelete_cols",
  "QSdelete_named_column", "QSdelete_named_columns_list",
  "QSchange_sense(idx)", "QSchange_sense(sense)", "QSchange_senses(idx)", "QSchange_senses(sense)",
  "QSchange_coef(row)", "QSchange_coef(col)", "QSchange_objcoef", "QSchange_rhscoef", "QSchange_range(idx)", "QSchange_range(non-R)",
  "QSchange_bound(idx)", "QSchange_bound(lu)", "QSchange_bounds(idx)", "QSchange_bounds(lu)", "QSchange_objsense",
  "QSnew_col(dup)", "QSadd_col(dup)", "QSadd_col(rowidx)", "QSadd_cols(dup)", "QSadd_cols(rowidx)",
  "QSnew_row(dup)", "QSnew_row(sense)", "QSadd_row(dup)", "QSadd_row(colidx)", "QSadd_row(sense)", "QSadd_rows(dup)", "QSadd_rows(colidx)",
  "QSadd_ranged_row(colidx)", "QSadd_ranged_rows(dup)",
  "QSget_bound(idx)", "QSget_bound(lu)", "QSget_coef(row)", "QSget_coef(col)", "QSget_obj_list", "QSget_bounds_list", "QSget_columns_list",
  "QSget_rows_list", "QSget_ranged_rows_list", "QSget_column_index", "QSget_row_index", "QSget_named_x", "QSget_named_rc",
  "QSget_named_pi", "QSget_named_slack", "QSget_binv_row", "QSget_tableau_row",
  "QSset_param(id)", "QSset_param(value)", "QSget_param(id)", "QSset_param_EGlpNum(id)", "QSget_param_EGlpNum(id)",
  "QSload_basis(size)", "QSload_basis_array(bytes)", "QSload_basis_array(count)", "QSload_basis_array(upper-on-nonranged)",
  "QSopt_pivotin_row", "QSopt_pivotin_col", "QSread_and_load_basis(missing)", "QSwrite_basis(size)",
};
enum Bnd { B_MINUS1, B_COUNT, B_COUNT1, B_NCOLS_INTERNAL, B_INTMAX, B_INTMIN, B_NBND };
static const char *bnd_name[] = {"-1", "count", "count+1", "nstruct+nrows", "INT_MAX", "INT_MIN"};

static int bad_index(int bnd, int count, const Model &m) {
  switch (bnd) {
  case B_MINUS1: return -1;
  case B_COUNT: return count;
  case B_COUNT1: return count + 1;
  case B_NCOLS_INTERNAL: return std::max(count + 2, m.n() + m.m());
  case B_INTMAX: return INT_MAX;
  default: return INT_MIN;
  }
}

void gen_c07_case(Tape &t, Case &c) {
  Model m;
  gen_start_model(t, 5, 5, 1, true, m);
  // every entry named, and at least 2 cols / 2 rows so that lists have a valid member
  while (m.n() < 2) { Col cc; cc.lo = 0; cc.up = PINF(); cc.obj = 1; m.cols.push_back(cc); }
  while (m.m() < 2) { Row rr; rr.sense = 'L'; rr.rhs = 4; rr.a[0] = 1; rr.a[1] = 1; m.rows.push_back(rr); }
  for (int j = 0; j < m.n(); j++) m.cols[j].name = "v" + std::to_string(j);
  for (int i = 0; i < m.m(); i++) m.rows[i].name = "r" + std::to_string(i);
  c.add_model(m);
  c.ops.push_back(Op("route").I(t.below(R_NROUTES)));
  // lifecycle state (bit 2 set: first grown, name by name, past 100 columns and rows, where the name tables
  // re-hash), solver used to reach it
  c.ops.push_back(Op("state").I(t.below(4) + (t.chance(1, 5) ? 4 : 0)).I(t.below(3)).I(t.below(3)));
  Op b("bad");
  b.I(t.below(F_NFUNCS)).I(t.below(B_NBND)).I(t.below(3));        // function, boundary value, position in a list
  c.ops.push_back(b);
}

struct Snapshot {
  bool dump_ok = false;
  Model model;
  int basis_rc = 0;
  std::string cstat, rstat;
  int status_rc = 0, status = 0;
  bool have_sol = false;
  Solution sol;
  int nz = 0;
  int params[8];
  std::string str() const {
    return strprintf("basis_rc=%d cstat=%s rstat=%s status=%d have_sol=%d", basis_rc, cstat.c_str(), rstat.c_str(), status, (int)have_sol);
  }
};
static void take_snapshot(mpq_QSprob p, Snapshot &s) {
  std::string why;
  s.dump_ok = sut_dump(p, s.model, &why, true);
  int n = mpq_QSget_colcount(p), m = mpq_QSget_rowcount(p);
  s.cstat.assign(n, '?');
  s.rstat.assign(m, '?');
  s.basis_rc = mpq_QSget_basis_array(p, &s.cstat[0], &s.rstat[0]);
  if (s.basis_rc) { s.cstat.clear(); s.rstat.clear(); }
  s.status_rc = mpq_QSget_status(p, &s.status);
  s.have_sol = sut_fetch_solution(p, s.sol, &why);
  static const int ids[] = {QS_PARAM_PRIMAL_PRICING, QS_PARAM_DUAL_PRICING, QS_PARAM_SIMPLEX_DISPLAY, QS_PARAM_SIMPLEX_MAX_ITERATIONS, QS_PARAM_SIMPLEX_SCALING};
  for (int k = 0; k < 5; k++) { s.params[k] = -777; mpq_QSget_param(p, ids[k], &s.params[k]); }
}
static bool same_snapshot(const Snapshot &a, const Snapshot &b, std::string *why) {
  std::string w;
  if (a.dump_ok != b.dump_ok) { *why = "query API consistency changed"; return false; }
  if (!model_equal(a.model, b.model, &w)) { *why = "problem data changed: " + w; return false; }
  if (a.basis_rc != b.basis_rc || a.cstat != b.cstat || a.rstat != b.rstat) { *why = "basis changed: " + a.str() + " -> " + b.str(); return false; }
  if (a.status != b.status) { *why = strprintf("status changed %d -> %d", a.status, b.status); return false; }
  if (a.have_sol != b.have_sol) { *why = "stored solution appeared/disappeared"; return false; }
  if (a.have_sol && (a.sol.value != b.sol.value || a.sol.x != b.sol.x || a.sol.pi != b.sol.pi || a.sol.rc != b.sol.rc || a.sol.slack != b.sol.slack)) { *why = "stored solution changed"; return false; }
  for (int k = 0; k < 5; k++) if (a.params[k] != b.params[k]) { *why = "a parameter changed"; return false; }
  return true;
}

// performs the invalid call; returns the library's return code (NULL results mapped to 1), -9999 if not applicable
int do_bad_call(mpq_QSprob p, const Model &m, int fn, int bnd, int pos, std::string &desc) {
  int n = m.n(), mm = m.m();
  int badrow = bad_index(bnd, mm, m), badcol = bad_index(bnd, n, m);
  Q one(1), two(2);
  QArr vals(4);
  for (int k = 0; k < 4; k++) vals.set(k, Q(k + 1));
  // lists of length 3 with the bad entry at position pos, other entries valid and distinct
  auto rowlist = [&](int bad) { std::vector<int> l = {0, 1 % mm, 0}; l[2] = mm > 2 ? 2 : 0; if (mm <= 2) l.resize(2); l[pos % (int)l.size()] = bad; return l; };
  auto collist = [&](int bad) { std::vector<int> l = {0, 1 % n, 0}; l[2] = n > 2 ? 2 : 0; if (n <= 2) l.resize(2); l[pos % (int)l.size()] = bad; return l; };
  const char *unknown = bnd % 2 ? "no_such_name" : "";
  std::string dupcol = m.cols[pos % n].name, duprow = m.rows[pos % mm].name;
  if (n > 100) dupcol = m.cols[pos % 3 == 0 ? 100 : (pos % 3 == 1 ? n - 1 : 0)].name;     // the name whose registration made the table grow
  if (mm > 100) duprow = m.rows[pos % 3 == 0 ? 100 : (pos % 3 == 1 ? mm - 1 : 0)].name;
  char badsense = bnd % 2 ? 'X' : (char)1;
  char badlu = bnd % 2 ? 'X' : 'l';
  desc = strprintf("%s boundary=%s pos=%d", fn_name[fn], bnd_name[bnd], pos);
  switch (fn) {
  case F_DELROW: return mpq_QSdelete_row(p, badrow);
  case F_DELROWS: { auto l = rowlist(badrow); return mpq_QSdelete_rows(p, (int)l.size(), l.data()); }
  case F_DELNAMEDROW: return mpq_QSdelete_named_row(p, unknown);
  case F_DELNAMEDROWS: { const char *nm[2] = {m.rows[0].name.c_str(), unknown}; if (pos % 2) std::swap(nm[0], nm[1]); return mpq_QSdelete_named_rows_list(p, 2, nm); }
  case F_DELCOL: return mpq_QSdelete_col(p, badcol);
  case F_DELCOLS: { auto l = collist(badcol); return mpq_QSdelete_cols(p, (int)l.size(), l.data()); }
  case F_DELNAMEDCOL: return mpq_QSdelete_named_column(p, unknown);
  case F_DELNAMEDCOLS: { const char *nm[2] = {m.cols[0].name.c_str(), unknown}; if (pos % 2) std::swap(nm[0], nm[1]); return mpq_QSdelete_named_columns_list(p, 2, nm); }
  case F_CHGSENSE_IDX: return mpq_QSchange_sense(p, badrow, 'G');
  case F_CHGSENSE_SENSE: return mpq_QSchange_sense(p, 0, badsense);
  case F_CHGSENSES_IDX: { auto l = rowlist(badrow); char s[4] = {'G', 'L', 'E', 0}; return mpq_QSchange_senses(p, (int)l.size(), l.data(), s); }
  case F_CHGSENSES_SENSE: { auto l = rowlist(0); if (l.size() > 1) l[0] = (int)l.size() > 2 ? 1 : 1; std::vector<int> d = {0, 1 % mm}; char s[3] = {'G', 'L', 0}; s[pos % 2] = badsense; return mpq_QSchange_senses(p, 2, d.data(), s); }
  case F_CHGCOEF_ROW: return mpq_QSchange_coef(p, badrow, 0, two.get_mpq_t());
  case F_CHGCOEF_COL: return mpq_QSchange_coef(p, 0, badcol, two.get_mpq_t());
  case F_CHGOBJ: return mpq_QSchange_objcoef(p, badcol, two.get_mpq_t());
  case F_CHGRHS: return mpq_QSchange_rhscoef(p, badrow, two.get_mpq_t());
  case F_CHGRANGE_IDX: return mpq_QSchange_range(p, badrow, two.get_mpq_t());
  case F_CHGRANGE_NONR: {
    for (int i = 0; i < mm; i++) if (m.rows[i].sense != 'R') return mpq_QSchange_range(p, i, two.get_mpq_t());
    return -9999;
  }
  case F_CHGBOUND_IDX: return mpq_QSchange_bound(p, badcol, pos % 2 ? 'L' : 'U', two.get_mpq_t());
  case F_CHGBOUND_LU: return mpq_QSchange_bound(p, 0, badlu, two.get_mpq_t());
  case F_CHGBOUNDS_IDX: { auto l = collist(badcol); char lu[4] = {'L', 'U', 'L', 0}; return mpq_QSchange_bounds(p, (int)l.size(), l.data(), lu, vals.v); }
  case F_CHGBOUNDS_LU: { std::vector<int> d = {0, 1 % n}; char lu[3] = {'L', 'U', 0}; lu[pos % 2] = badlu; return mpq_QSchange_bounds(p, 2, d.data(), lu, vals.v); }
  case F_OBJSENSE: return mpq_QSchange_objsense(p, bnd % 2 ? 0 : 2);
  case F_NEWCOL_DUP: return mpq_QSnew_col(p, one.get_mpq_t(), one.get_mpq_t(), two.get_mpq_t(), dupcol.c_str());
  case F_ADDCOL_DUP: { int ind[1] = {0}; return mpq_QSadd_col(p, 1, ind, vals.v, one.get_mpq_t(), one.get_mpq_t(), two.get_mpq_t(), dupcol.c_str()); }
  case F_ADDCOL_ROWIDX: { int ind[2] = {0, badrow}; if (pos % 2) std::swap(ind[0], ind[1]); return mpq_QSadd_col(p, 2, ind, vals.v, one.get_mpq_t(), one.get_mpq_t(), two.get_mpq_t(), "c07newcol"); }
  case F_ADDCOLS_DUP: {
    int cnt[2] = {1, 1}, beg[2] = {0, 1}, ind[2] = {0, 1 % mm};
    const char *nm[2] = {"c07a", dupcol.c_str()};
    if (pos % 3 == 2) nm[1] = "c07a";    // duplicate within the call itself
    QArr o(2), l(2), u(2);
    for (int k = 0; k < 2; k++) { o.set(k, 1); l.set(k, 0); u.set(k, 2); }
    return mpq_QSadd_cols(p, 2, cnt, beg, ind, vals.v, o.v, l.v, u.v, nm);
  }
  case F_ADDCOLS_ROWIDX: {
    int cnt[2] = {1, 1}, beg[2] = {0, 1}, ind[2] = {0, badrow};
    const char *nm[2] = {"c07a", "c07b"};
    QArr o(2), l(2), u(2);
    for (int k = 0; k < 2; k++) { o.set(k, 1); l.set(k, 0); u.set(k, 2); }
    return mpq_QSadd_cols(p, 2, cnt, beg, ind, vals.v, o.v, l.v, u.v, nm);
  }
  case F_NEWROW_DUP: return mpq_QSnew_row(p, one.get_mpq_t(), 'L', duprow.c_str());
  case F_NEWROW_SENSE: return mpq_QSnew_row(p, one.get_mpq_t(), badsense, "c07newrow");
  case F_ADDROW_DUP: { int ind[1] = {0}; return mpq_QSadd_row(p, 1, ind, vals.v, (const mpq_t *)one.get_mpq_t(), 'L', duprow.c_str()); }
  case F_ADDROW_COLIDX: { int ind[2] = {0, badcol}; if (pos % 2) std::swap(ind[0], ind[1]); return mpq_QSadd_row(p, 2, ind, vals.v, (const mpq_t *)one.get_mpq_t(), 'L', "c07newrow"); }
  case F_ADDROW_SENSE: { int ind[1] = {0}; return mpq_QSadd_row(p, 1, ind, vals.v, (const mpq_t *)one.get_mpq_t(), badsense, "c07newrow"); }
  case F_ADDROWS_DUP: {
    int cnt[2] = {1, 1}, beg[2] = {0, 1}, ind[2] = {0, 1 % n};
    const char *nm[2] = {"c07a", duprow.c_str()};
    if (pos % 3 == 2) nm[1] = "c07a";
    char s[3] = {'L', 'G', 0};
    QArr rhs(2);
    return mpq_QSadd_rows(p, 2, cnt, beg, ind, vals.v, rhs.v, s, nm);
  }
  case F_ADDROWS_COLIDX: {
    int cnt[2] = {1, 1}, beg[2] = {0, 1}, ind[2] = {0, badcol};
    const char *nm[2] = {"c07a", "c07b"};
    char s[3] = {'L', 'G', 0};
    QArr rhs(2);
    return mpq_QSadd_rows(p, 2, cnt, beg, ind, vals.v, rhs.v, s, nm);
  }
  case F_ADDRROW_COLIDX: { int ind[2] = {0, badcol}; QArr rhs(1), rg(1); return mpq_QSadd_ranged_row(p, 2, ind, vals.v, rhs.v, 'R', rg.v, "c07newrow"); }
  case F_ADDRROWS_DUP: {
    int cnt[2] = {1, 1}, beg[2] = {0, 1}, ind[2] = {0, 1 % n};
    const char *nm[2] = {"c07a", duprow.c_str()};
    char s[3] = {'R', 'G', 0};
    QArr rhs(2), rg(2);
    return mpq_QSadd_ranged_rows(p, 2, cnt, beg, ind, vals.v, rhs.v, s, rg.v, nm);
  }
  case F_GETBOUND_IDX: { Q t; return mpq_QSget_bound(p, badcol, 'L', qp(t)); }
  case F_GETBOUND_LU: { Q t; return mpq_QSget_bound(p, 0, badlu, qp(t)); }
  case F_GETCOEF_ROW: { Q t; return mpq_QSget_coef(p, badrow, 0, qp(t)); }
  case F_GETCOEF_COL: { Q t; return mpq_QSget_coef(p, 0, badcol, qp(t)); }
  case F_GETOBJLIST: { auto l = collist(badcol); QArr o(3); return mpq_QSget_obj_list(p, (int)l.size(), l.data(), o.v); }
  case F_GETBOUNDSLIST: { auto l = collist(badcol); QArr a(3), b(3); return mpq_QSget_bounds_list(p, (int)l.size(), l.data(), a.v, b.v); }
  case F_GETCOLSLIST: {
    auto l = collist(badcol);
    int *cnt = 0, *beg = 0, *ind = 0; mpq_t *val = 0, *obj = 0, *lo = 0, *up = 0; char **names = 0;
    int rc = mpq_QSget_columns_list(p, (int)l.size(), l.data(), &cnt, &beg, &ind, &val, &obj, &lo, &up, &names);
    if (rc == 0) {   // accepted: release what it returned
      mpq_QSfree(cnt); mpq_QSfree(beg); mpq_QSfree(ind); qsx_mpq_free(val); qsx_mpq_free(obj); qsx_mpq_free(lo); qsx_mpq_free(up);
      if (names) { for (size_t k = 0; k < l.size(); k++) mpq_QSfree(names[k]); mpq_QSfree(names); }
    }
    return rc;
  }
  case F_GETROWSLIST: case F_GETRROWSLIST: {
    auto l = rowlist(badrow);
    int *cnt = 0, *beg = 0, *ind = 0; mpq_t *val = 0, *rhs = 0, *rg = 0; char *sense = 0; char **names = 0;
    int rc = fn == F_GETROWSLIST ? mpq_QSget_rows_list(p, (int)l.size(), l.data(), &cnt, &beg, &ind, &val, &rhs, &sense, &names)
                                 : mpq_QSget_ranged_rows_list(p, (int)l.size(), l.data(), &cnt, &beg, &ind, &val, &rhs, &sense, &rg, &names);
    if (rc == 0) {
      mpq_QSfree(cnt); mpq_QSfree(beg); mpq_QSfree(ind); mpq_QSfree(sense); qsx_mpq_free(val); qsx_mpq_free(rhs); qsx_mpq_free(rg);
      if (names) { for (size_t k = 0; k < l.size(); k++) mpq_QSfree(names[k]); mpq_QSfree(names); }
    }
    return rc;
  }
  case F_COLINDEX: { int idx = 0; return mpq_QSget_column_index(p, unknown, &idx); }
  case F_ROWINDEX: { int idx = 0; return mpq_QSget_row_index(p, unknown, &idx); }
  case F_NAMEDX: { Q t; return mpq_QSget_named_x(p, unknown, qp(t)); }
  case F_NAMEDRC: { Q t; return mpq_QSget_named_rc(p, unknown, qp(t)); }
  case F_NAMEDPI: { Q t; return mpq_QSget_named_pi(p, unknown, qp(t)); }
  case F_NAMEDSLACK: { Q t; return mpq_QSget_named_slack(p, unknown, qp(t)); }
  case F_BINVROW: { QArr r(mm + 1); return mpq_QSget_binv_row(p, badrow, r.v); }
  case F_TABLEAUROW: { QArr r(n + mm + 1); return mpq_QSget_tableau_row(p, badrow, r.v); }
  case F_SETPARAM_ID: return mpq_QSset_param(p, bnd % 2 ? -1 : 99, 1);
  case F_SETPARAM_VAL: {
    static const int ids[] = {QS_PARAM_PRIMAL_PRICING, QS_PARAM_DUAL_PRICING, QS_PARAM_SIMPLEX_DISPLAY, QS_PARAM_SIMPLEX_MAX_ITERATIONS, QS_PARAM_SIMPLEX_SCALING};
    static const int bad[] = {QS_PRICE_DSTEEP, QS_PRICE_PSTEEP, 4, 0, 2};
    int k = (bnd + pos) % 5;
    desc += strprintf(" param=%d value=%d", ids[k], bad[k]);
    return mpq_QSset_param(p, ids[k], bnd == B_MINUS1 ? -1 : bad[k]);
  }
  case F_GETPARAM_ID: { int v = 0; return mpq_QSget_param(p, bnd % 2 ? -1 : 99, &v); }
  case F_SETPARAMQ_ID: return mpq_QSset_param_EGlpNum(p, bnd % 2 ? -1 : 99, two.get_mpq_t());
  case F_GETPARAMQ_ID: { Q t; return mpq_QSget_param_EGlpNum(p, bnd % 2 ? -1 : 99, qp(t)); }
  case F_LOADBASIS_SIZE: {
    std::string cs(n + (pos % 2 ? 1 : 0), '0'), rs(mm + (pos % 2 ? 0 : 1), '1');
    QSbasis *B = make_basis(cs, rs);
    int rc = mpq_QSload_basis(p, B);
    mpq_QSfree_basis(B);
    return rc;
  }
  case F_LOADBASISARR_BYTES: {
    std::string cs(n, '0'), rs(mm, '1');
    if (pos % 2) cs[0] = bnd % 2 ? 'Z' : (char)7; else rs[0] = bnd % 2 ? '9' : (char)0x7f;
    return mpq_QSload_basis_array(p, &cs[0], &rs[0]);
  }
  case F_LOADBASISARR_COUNT: {
    std::string cs(n, '0'), rs(mm, '1');
    for (int j = 0; j < n; j++) { const Col &c = m.cols[j]; cs[j] = is_fin(c.lo) ? '0' : (is_fin(c.up) ? '2' : '3'); }
    if (pos % 2) cs[0] = '1';            // m+1 basic entries
    else rs[0] = '0';                    // m-1 basic entries
    return mpq_QSload_basis_array(p, &cs[0], &rs[0]);
  }
  case F_LOADBASISARR_UPPER_NONRANGED: {
    std::string cs(n, '0'), rs(mm, '1');
    for (int j = 0; j < n; j++) { const Col &c = m.cols[j]; cs[j] = is_fin(c.lo) ? '0' : (is_fin(c.up) ? '2' : '3'); }
    int target = -1;
    for (int i = 0; i < mm; i++) if (m.rows[i].sense != 'R' && !m.rows[i].a.empty()) target = i;
    if (target < 0) return -9999;
    rs[target] = '2';                    // UPPER on a row that is not ranged
    cs[m.rows[target].a.begin()->first] = '1';
    return mpq_QSload_basis_array(p, &cs[0], &rs[0]);
  }
  case F_PIVOTIN_ROW: { auto l = rowlist(badrow); return mpq_QSopt_pivotin_row(p, (int)l.size(), l.data()); }
  case F_PIVOTIN_COL: { auto l = collist(badcol); return mpq_QSopt_pivotin_col(p, (int)l.size(), l.data()); }
  case F_READLOADBASIS_MISSING: return mpq_QSread_and_load_basis(p, "no_such_file.bas");
  case F_WRITEBASIS_SIZE: {
    std::string cs(n + 1, '0'), rs(mm, '1');
    QSbasis *B = make_basis(cs, rs);
    int rc = mpq_QSwrite_basis(p, B, "c07.bas");
    mpq_QSfree_basis(B);
    return rc;
  }
  }
  return -9999;
}

// which boundary classes are meaningful for a probe (others collapse to one class)
static std::string value_class(int fn, int bnd) {
  switch (fn) {
  case F_DELNAMEDROW: case F_DELNAMEDROWS: case F_DELNAMEDCOL: case F_DELNAMEDCOLS: case F_COLINDEX: case F_ROWINDEX:
  case F_NAMEDX: case F_NAMEDRC: case F_NAMEDPI: case F_NAMEDSLACK:
    return bnd % 2 ? "unknown-name" : "empty-name";
  case F_CHGSENSE_SENSE: case F_CHGSENSES_SENSE: case F_NEWROW_SENSE: case F_ADDROW_SENSE:
    return bnd % 2 ? "sense-X" : "sense-0x01";
  case F_CHGBOUND_LU: case F_CHGBOUNDS_LU: case F_GETBOUND_LU:
    return bnd % 2 ? "lu-X" : "lu-lowercase-l";
  case F_OBJSENSE: return bnd % 2 ? "0" : "2";
  case F_SETPARAM_ID: case F_GETPARAM_ID: case F_SETPARAMQ_ID: case F_GETPARAMQ_ID: return bnd % 2 ? "id--1" : "id-99";
  case F_NEWCOL_DUP: case F_ADDCOL_DUP: case F_ADDCOLS_DUP: case F_NEWROW_DUP: case F_ADDROW_DUP: case F_ADDROWS_DUP: case F_ADDRROWS_DUP:
    return "duplicate-name";
  case F_CHGRANGE_NONR: return "non-ranged-row";
  case F_SETPARAM_VAL: return "bad-value";
  case F_LOADBASIS_SIZE: case F_WRITEBASIS_SIZE: return "wrong-size";
  case F_LOADBASISARR_BYTES: return "illegal-status-byte";
  case F_LOADBASISARR_COUNT: return "wrong-basic-count";
  case F_LOADBASISARR_UPPER_NONRANGED: return "upper-on-nonranged-row";
  case F_READLOADBASIS_MISSING: return "missing-file";
  default: return bnd_name[bnd % B_NBND];
  }
}
static std::string c07_context(const Case &c) {
  for (auto &o : c.ops)
    if (o.k == "bad" && o.i.size() >= 2) {
      int fn = (int)o.i[0] % F_NFUNCS, bnd = (int)o.i[1] % B_NBND;
      return std::string("fn=") + fn_name[fn] + ";value=" + value_class(fn, bnd);
    }
  return "";
}

int c07_nfuncs() { return F_NFUNCS; }

void c07_run(const Case &c, Result &r) {
  size_t pos = 0;
  Model m;
  if (!model_from_ops(c.ops, pos, m)) { r.verdict = DISCARD; return; }
  if (m.n() < 2 || m.m() < 2) { r.verdict = DISCARD; return; }
  int route = 0, state = 1, solver = 0;
  if (pos < c.ops.size() && c.ops[pos].k == "route") route = (int)c.ops[pos++].i[0];
  if (pos < c.ops.size() && c.ops[pos].k == "state") { state = (int)c.ops[pos].i[0]; solver = c.ops[pos].i.size() > 1 ? (int)c.ops[pos].i[1] : 0; pos++; }
  if (pos >= c.ops.size() || c.ops[pos].k != "bad" || c.ops[pos].i.size() < 3) { r.verdict = DISCARD; return; }
  int fn = (int)c.ops[pos].i[0] % F_NFUNCS, bnd = (int)c.ops[pos].i[1] % B_NBND, lpos = (int)c.ops[pos].i[2];
  int extra = pos >= 1 && c.ops[pos - 1].k == "state" && c.ops[pos - 1].i.size() > 2 ? (int)c.ops[pos - 1].i[2] % 3 : 0;
  bool grown = (state & 4) != 0;
  state &= 3;
  std::string why;
  mpq_QSprob p = sut_build(m, route, &why);
  if (!p) { r.fail("build:" + why, why); return; }
  if (grown) {
    // one name at a time, so that the 101st registration is the one that makes the table grow
    Q zero(0), one(1);
    int wantc = 101 + extra, wantr = 101 + (extra + 1) % 3;
    while (m.n() < wantc) {
      Col cc; cc.name = "gc" + std::to_string(m.n()); cc.lo = 0; cc.up = 1; cc.obj = 0;
      if (mpq_QSnew_col(p, zero.get_mpq_t(), zero.get_mpq_t(), one.get_mpq_t(), cc.name.c_str())) { r.fail("build:grow", "QSnew_col failed while growing"); mpq_QSfree_prob(p); return; }
      m.cols.push_back(cc);
    }
    while (m.m() < wantr) {
      Row rr; rr.name = "gr" + std::to_string(m.m()); rr.sense = 'L'; rr.rhs = 1;
      if (mpq_QSnew_row(p, one.get_mpq_t(), 'L', rr.name.c_str())) { r.fail("build:grow", "QSnew_row failed while growing"); mpq_QSfree_prob(p); return; }
      m.rows.push_back(rr);
    }
    r.label("grown:>100-names");
  }
  // lifecycle: 0 freshly loaded, 1 loaded + parameters set, 2 solved (basis, cache, factor), 3 edited after solve
  static const char *stn[] = {"loaded", "loaded+params", "solved", "edited-after-solve"};
  if (state >= 1) { mpq_QSset_param(p, QS_PARAM_SIMPLEX_MAX_ITERATIONS, 500); }
  if (state >= 2) {
    int st = 0;
    if (solver == 0) { QArr x(m.n() + m.m()), y(m.m()); QSexact_solver(p, x.v, y.v, nullptr, DUAL_SIMPLEX, &st); QSexact_set_precision(128); }
    else if (solver == 1) mpq_QSopt_primal(p, &st);
    else mpq_QSopt_dual(p, &st);
    r.label(std::string("state-status:") + (st == QS_LP_OPTIMAL ? "OPTIMAL" : "other"));
  }
  if (state >= 3) {
    Q v(7, 3);
    mpq_QSchange_rhscoef(p, 0, v.get_mpq_t());
  }
  Snapshot before, after;
  take_snapshot(p, before);
  if (!before.dump_ok) { r.fail("dump-inconsistent:before", "query API inconsistent before the probe"); mpq_QSfree_prob(p); return; }
  std::string desc;
  size_t logmark = g_logbuf.size();
  int rc = do_bad_call(p, m, fn, bnd, lpos, desc);
  r.label(std::string("fn:") + fn_name[fn]);
  r.label(std::string("boundary:") + bnd_name[bnd]);
  r.label(std::string("state:") + stn[state & 3]);
  if (rc == -9999) { r.verdict = DISCARD; mpq_QSfree_prob(p); return; }
  std::string key = std::string("fn=") + fn_name[fn] + ";value=" + value_class(fn, bnd);
  if (rc == 0) {
    r.fail("accepted;" + key, "invalid call accepted (returned 0): " + desc + " in state " + stn[state & 3]);
  } else {
    take_snapshot(p, after);
    if (!same_snapshot(before, after, &why))
      r.fail("state-changed;" + key, "rejected call changed observable state: " + desc + " in state " + stn[state & 3] + ": " + why);
    // the name dictionaries are observable state too: none of the names the rejected call wanted to introduce
    // may be known afterwards, and a valid addition must still be possible
    if (r.verdict == PASS) {
      static const char *fresh[] = {"c07newcol", "c07a", "c07b", "c07newrow"};
      for (const char *nm : fresh) {
        int ci = -5, ri = -5;
        mpq_QSget_column_index(p, nm, &ci);
        mpq_QSget_row_index(p, nm, &ri);
        if (ci >= 0 || ri >= 0) {
          r.fail("state-changed;" + key, strprintf("rejected call left the name \"%s\" behind (column index %d, row index %d): ", nm, ci, ri) + desc + " in state " + stn[state & 3]);
          break;
        }
      }
    }
    // a valid value edit (drops the stored solution, keeps whatever factorization the object believes it has)
    // followed by a direct solve must work on the object as the rejected call left it -- before anything
    // structural is added that would rebuild the internal state
    if (r.verdict == PASS) {
      int st = 0;
      Q nv(5, 3);
      mpq_QSset_param(p, QS_PARAM_SIMPLEX_MAX_ITERATIONS, 500);
      if (mpq_QSget_colcount(p) > 0) mpq_QSchange_objcoef(p, 0, nv.get_mpq_t());
      if (lpos % 2) mpq_QSopt_dual(p, &st); else mpq_QSopt_primal(p, &st);
    }
    if (r.verdict == PASS) {
      Q zero(0), one1(1);
      int rc1 = mpq_QSnew_col(p, zero.get_mpq_t(), zero.get_mpq_t(), one1.get_mpq_t(), "c07probecol");
      int rc2 = mpq_QSnew_row(p, one1.get_mpq_t(), 'L', "c07proberow");
      if (rc1 || rc2)
        r.fail("state-changed;" + key, strprintf("after the rejected call a valid QSnew_col/QSnew_row fails (rc %d/%d): ", rc1, rc2) + desc + " in state " + stn[state & 3]);
    }
  }
  (void)logmark;
  // whatever happened, the object must still be usable and freeable: a valid value edit (drops the stored
  // solution, keeps whatever factorization the object believes it has) followed by both direct solves
  if (r.verdict == PASS) {
    int st = 0;
    Q nv(5, 3);
    mpq_QSset_param(p, QS_PARAM_SIMPLEX_MAX_ITERATIONS, 500);
    if (mpq_QSget_colcount(p) > 0) mpq_QSchange_objcoef(p, 0, nv.get_mpq_t());
    mpq_QSopt_dual(p, &st);
    if (mpq_QSget_rowcount(p) > 0) mpq_QSchange_rhscoef(p, 0, nv.get_mpq_t());
    mpq_QSopt_primal(p, &st);
  }
  mpq_QSfree_prob(p);
  r.nontrivial = true;
  r.canon = strprintf("%d/%d/%d/%d/%d", fn, bnd, lpos % 3, state, (int)grown);
  r.sample = desc + " state=" + stn[state & 3] + "\n" + c.str().substr(0, 800);
}

void register_c07() {
  Property p = {"C07", "", gen_c07_case, c07_run, 2, 60, false};
  p.crash_context = c07_context;
  p.keep_going = true;      // one probe per case: nothing to shrink, enumerate every failing cell
  register_property(p);
}

}  // namespace qsx

// C19 -- the esolver program reports exactly what the library computed
#include "qsx_io.hpp"
#include <bzlib.h>
#include <fcntl.h>
#include <sys/wait.h>
#include <unistd.h>
#include <zlib.h>

namespace qsx {

static void c19_gen(Tape &t, Case &c) {
  Model m;
  bool mps = t.coin();
  gen_file_model(t, m, mps, false, 5, 5, (int)t.below(2));
  // keep the LPs solvable in a moment: moderate numbers, mostly bounded
  c.add_model(m);
  Op o("run");
  // format, producer (0 emitter, 1 library writer), compression (0 none 1 gz 2 bz2), odd extension needing -L, option bits, pricing ids, precision, build (0 opt 1 asan), malform kind
  o.I(mps).I(t.below(2)).I(t.below(3)).I(t.chance(1, 5)).I(t.below(64)).I(1 + t.below(4)).I(t.below(4)).I(t.below(4)).I(t.chance(1, 3)).I(t.chance(1, 4) ? 1 + (long)t.below(5) : 0);
  EmitStats st;
  o.S(mps ? emit_mps(t, m, st) : emit_lp(t, m, st));
  o.I(t.below(100000));   // mutation position
  c.ops.push_back(o);
}

static int run_program(const std::vector<std::string> &argv, int timeout_s) {
  pid_t pid = fork();
  if (pid < 0) return -1000;
  if (pid == 0) {
    int nfd = open("/dev/null", O_WRONLY);
    if (nfd >= 0) { dup2(nfd, 1); if (!getenv("QSX_DEBUG")) dup2(nfd, 2); }
    std::vector<char *> a;
    for (auto &s : argv) a.push_back((char *)s.c_str());
    a.push_back(nullptr);
    alarm((unsigned)timeout_s);
    // leaks of the command line tool at exit are not this property's subject (C18 looks at the library's
    // error paths in-process); memory errors and UB still abort with exit codes >= 90
    setenv("ASAN_OPTIONS", "detect_leaks=0:exitcode=97:abort_on_error=0:allocator_may_return_null=1", 1);
    execv(a[0], a.data());
    _exit(127);
  }
  int st = 0;
  waitpid(pid, &st, 0);
  if (WIFSIGNALED(st)) return -WTERMSIG(st);
  return WEXITSTATUS(st);
}

static bool slurp_any(const std::string &path, std::string &out) {
  out.clear();
  if (path.size() > 4 && path.substr(path.size() - 4) == ".bz2") {
    BZFILE *b = BZ2_bzopen(path.c_str(), "rb");
    if (!b) return false;
    char buf[4096];
    int k;
    while ((k = BZ2_bzread(b, buf, sizeof buf)) > 0) out.append(buf, (size_t)k);
    BZ2_bzclose(b);
    return true;
  }
  gzFile g = gzopen(path.c_str(), "rb");   // reads plain files too
  if (!g) return false;
  char buf[4096];
  int k;
  while ((k = gzread(g, buf, sizeof buf)) > 0) out.append(buf, (size_t)k);
  gzclose(g);
  return true;
}

struct SolFile {
  std::string status1, status2;
  bool have_value = false;
  Q value;
  std::map<std::string, Q> vars, rc, pi, slack;
};
static bool parse_sol(const std::string &text, SolFile &s, std::string *why) {
  std::istringstream is(text);
  std::string line;
  std::map<std::string, Q> *cur = nullptr;
  int ln = 0;
  while (std::getline(is, line)) {
    ln++;
    if (line.rfind("status = ", 0) == 0) { s.status1 = line.substr(9); continue; }
    if (line.rfind("status ", 0) == 0) { s.status2 = line.substr(7); continue; }
    size_t v = line.find("Value = ");
    if (v != std::string::npos) { s.value = qparse(line.substr(v + 8)); s.have_value = true; continue; }
    if (line == "VARS:") { cur = &s.vars; continue; }
    if (line == "REDUCED COST:") { cur = &s.rc; continue; }
    if (line == "PI:") { cur = &s.pi; continue; }
    if (line == "SLACK:") { cur = &s.slack; continue; }
    if (line.empty()) continue;
    size_t eq = line.find(" = ");
    if (eq == std::string::npos || !cur) { *why = strprintf("unparsable line %d: ", ln) + line.substr(0, 80); return false; }
    std::string name = line.substr(0, eq), val = line.substr(eq + 3);
    Q q;
    if (q.set_str(val, 10) != 0) { *why = "value is not an exact fraction: " + line.substr(0, 80); return false; }
    q.canonicalize();
    if (cur->count(name)) { *why = "name listed twice: " + name; return false; }
    (*cur)[name] = q;
  }
  return true;
}

static void c19_run(const Case &c, Result &r) {
  size_t pos = 0;
  Model m;
  if (!model_from_ops(c.ops, pos, m)) { r.verdict = DISCARD; return; }
  if (pos >= c.ops.size() || c.ops[pos].k != "run" || c.ops[pos].i.size() < 11 || c.ops[pos].s.empty()) { r.verdict = DISCARD; return; }
  const Op &o = c.ops[pos];
  bool mps = o.i[0] != 0;
  int producer = (int)o.i[1], comp = (int)o.i[2] % 3, odd = (int)o.i[3], optbits = (int)o.i[4], pp = (int)o.i[5], dp = (int)o.i[6], prec = (int)o.i[7], useasan = (int)o.i[8], malform = (int)o.i[9];
  long mutpos = o.i[10];
  const char *eopt = getenv("QSX_ESOLVER_OPT"), *easan = getenv("QSX_ESOLVER_ASAN");
  if (!eopt || !easan) { r.verdict = INCONCLUSIVE; r.msg = "esolver binaries not configured"; return; }
  std::string text = o.s[0];
  const char *type = mps ? "MPS" : "LP";
  std::string why;
  // producer 1: the library's own writer renders the model
  if (producer == 1 && !malform) {
    mpq_QSprob p = sut_build(m, R_LOAD, &why);
    if (!p) { r.verdict = DISCARD; return; }
    std::string path;
    bool ok = sut_write_file(p, type, 0, path, &why);
    mpq_QSfree_prob(p);
    bool rd = false;
    if (ok) text = read_file(path, &rd);
    if (!ok || !rd) { r.verdict = DISCARD; return; }
    r.label("producer:library-writer");
  } else r.label("producer:emitter");
  if (malform) {
    // token-level damage; whether the result still is a valid file is decided by the library reader below
    size_t at = text.empty() ? 0 : (size_t)mutpos % text.size();
    switch (malform) {
    case 1: text = text.substr(0, at); break;                                   // truncation
    case 2: text.insert(at, " <= >= = "); break;
    case 3: text.insert(at, "1/0 "); break;
    case 4: text.insert(at, "\nROWS\nBOUNDS\nST\n"); break;
    default: text = std::string("garbage ") + text; break;
    }
    r.label("malformed-input");
  }
  // what does the library itself make of this text?
  ReadResult rr;
  sut_read_text(text, type, false, rr);
  bool readable = rr.p != nullptr;
  Model readm;
  if (rr.p) { if (!sut_dump(rr.p, readm, &why, false)) readable = false; mpq_QSfree_prob(rr.p); }
  // file name
  std::string fname = std::string("prob") + (odd ? ".dat" : (mps ? ".mps" : ".lp"));
  if (comp == 1) fname += ".gz";
  if (comp == 2) fname += ".bz2";
  if (comp == 1) { gzFile g = gzopen(fname.c_str(), "wb"); gzwrite(g, text.data(), (unsigned)text.size()); gzclose(g); }
  else if (comp == 2) { BZFILE *b = BZ2_bzopen(fname.c_str(), "wb"); BZ2_bzwrite(b, (void *)text.data(), (int)text.size()); BZ2_bzclose(b); }
  else write_file(fname, text);
  r.label(std::string("format:") + type + (comp == 1 ? ".gz" : comp == 2 ? ".bz2" : "") + (odd ? "+odd-extension" : ""));
  bool missing = (optbits & 32) && malform == 0 && (mutpos % 7 == 0);
  std::vector<std::string> av;
  av.push_back(useasan ? easan : eopt);
  if (useasan) { av.push_back("-m"); av.push_back("18446744073709551615"); }
  static const int precs[] = {0, 64, 128, 256};
  std::string solname = std::string("out.sol") + ((optbits & 1) ? ((optbits & 2) ? ".gz" : ".bz2") : "");
  av.push_back("-O"); av.push_back(solname);
  int nopt = 0;
  if ((odd || (optbits & 4)) && !mps) { av.push_back("-L"); nopt++; }
  bool ftype_known = !odd || !mps ? true : true;   // odd extension + MPS: default format is MPS
  if (optbits & 8) { av.push_back("-p"); av.push_back(std::to_string(pp)); nopt++; }
  else if (optbits & 16) { av.push_back("-d"); av.push_back(std::to_string(6 + dp)); nopt++; }
  if ((mutpos % 3) == 0) { av.push_back("-S"); nopt++; }
  if (precs[prec]) { av.push_back("-P"); av.push_back(std::to_string(precs[prec])); nopt++; }
  bool wantbasis = (mutpos % 5) < 2;
  if (wantbasis) { av.push_back("-b"); av.push_back("out.bas"); nopt++; }
  av.push_back(missing ? "no_such_file.lp" : fname);
  (void)ftype_known;
  int rc = run_program(av, 100);
  r.label(useasan ? "build:asan" : "build:opt");
  if (rc < 0 || rc >= 90) {
    if (rc == -14) { r.verdict = INCONCLUSIVE; r.msg = "esolver timeout"; return; }
    std::string cmd;
    for (auto &a : av) cmd += a + " ";
    r.fail(strprintf("esolver-died:%d", rc), "esolver was killed / aborted (" + std::to_string(rc) + "): " + cmd + "\n---\n" + text.substr(0, 1200));
    return;
  }
  if (missing || !readable) {
    r.label(missing ? "case:missing-file" : "case:rejected-file");
    if (rc == 0) r.fail(missing ? "exit0-on-missing-file" : "exit0-on-malformed-file", "esolver exits 0 although the input cannot be read\n---\n" + text.substr(0, 1200));
    r.nontrivial = false;
    r.sample = c.str().substr(0, 1200);
    return;
  }
  // readable: exit 0, solution file states the truth
  const Model &tm = malform ? readm : m;       // a damaged but still valid file denotes what the library read
  // (a cut can land inside a number literal and leave data far outside C03's "moderate" range, e.g. 3e256 with
  // its exponent cut off; the exact driver may then stop at its default objective bound of 1e150 and esolver
  // exits non-zero, which says nothing about esolver)
  if (malform && !model_is_moderate(tm)) { r.label("case:damaged-file-denotes-immoderate-data"); r.verdict = DISCARD; return; }
  RefResult ref;
  ref_solve(tm, ref);
  if (ref.truth == T_UNKNOWN) { r.verdict = INCONCLUSIVE; r.msg = "reference could not certify the truth"; return; }
  static const char *tn[] = {"?", "OPTIMAL", "INFEASIBLE", "UNBOUNDED"};
  r.label(std::string("truth:") + tn[ref.truth]);
  std::string cmd;
  for (auto &a : av) cmd += a + " ";
  if (rc != 0) { r.fail("nonzero-exit-on-readable-file", strprintf("esolver exits %d on a readable file: ", rc) + cmd + "\n---\n" + text.substr(0, 1200)); return; }
  std::string soltext;
  if (!slurp_any(solname, soltext)) { r.fail("no-solution-file", "esolver -O wrote no readable solution file: " + cmd); return; }
  SolFile sf;
  if (!parse_sol(soltext, sf, &why)) { r.fail("solution-file-format", why + "\n---\n" + soltext.substr(0, 800)); return; }
  if (sf.status1 != tn[ref.truth]) { r.fail("solution-file-status", "solution file says '" + sf.status1 + "', the truth is " + tn[ref.truth] + "\n" + cmd + "\n---\n" + text.substr(0, 1200)); return; }
  if (ref.truth == T_OPTIMAL) {
    if (sf.status2 != "OPTIMAL") { r.fail("solution-file-status2", "second status line says '" + sf.status2 + "'"); return; }
    Solution s;
    s.status = QS_LP_OPTIMAL;
    s.have = true;
    s.value = sf.value;
    std::set<std::string> cn, rn;
    for (auto &cc : tm.cols) { s.x.push_back(sf.vars.count(cc.name) ? sf.vars[cc.name] : Q(0)); s.rc.push_back(sf.rc.count(cc.name) ? sf.rc[cc.name] : Q(0)); cn.insert(cc.name); }
    for (auto &rw : tm.rows) { s.pi.push_back(sf.pi.count(rw.name) ? sf.pi[rw.name] : Q(0)); s.slack.push_back(sf.slack.count(rw.name) ? sf.slack[rw.name] : Q(0)); rn.insert(rw.name); }
    for (auto &kv : sf.vars) if (!cn.count(kv.first) || kv.second == 0) { r.fail("solution-file-vars", "VARS lists '" + kv.first + "' (unknown name or zero value)"); return; }
    for (auto &kv : sf.rc) if (!cn.count(kv.first) || kv.second == 0) { r.fail("solution-file-rc", "REDUCED COST lists '" + kv.first + "' (unknown name or zero value)"); return; }
    for (auto &kv : sf.pi) if (!rn.count(kv.first) || kv.second == 0) { r.fail("solution-file-pi", "PI lists '" + kv.first + "' (unknown name or zero value)"); return; }
    for (auto &kv : sf.slack) if (!rn.count(kv.first) || kv.second == 0) { r.fail("solution-file-slack", "SLACK lists '" + kv.first + "' (unknown name or zero value)"); return; }
    std::string sig;
    if (!sf.have_value) { r.fail("solution-file-no-value", "no Value line"); return; }
    if (!check_solution(tm, s, &sig, &why)) { r.fail("solution-file:" + sig, "the solution file does not describe an optimal solution: " + why + "\n" + cmd + "\n---\n" + soltext.substr(0, 800)); return; }
    if (s.value != ref.value) { r.fail("solution-file-value", "Value " + qstr(s.value) + " but the optimum is " + qstr(ref.value)); return; }
    if (wantbasis) {
      // the basis written with -b must be accepted with -B and lead to the same optimum
      std::vector<std::string> a2;
      a2.push_back(useasan ? easan : eopt);
      if (useasan) { a2.push_back("-m"); a2.push_back("18446744073709551615"); }
      a2.push_back("-O"); a2.push_back("out2.sol");
      if ((odd || (optbits & 4)) && !mps) a2.push_back("-L");
      a2.push_back("-B"); a2.push_back("out.bas");
      a2.push_back(fname);
      int rc2 = run_program(a2, 100);
      std::string s2;
      SolFile sf2;
      if (rc2 != 0) { bool okb; r.fail("basis-reload-exit", strprintf("second run with -B exits %d", rc2) + "\n--- basis file\n" + read_file("out.bas", &okb).substr(0, 600)); return; }
      if (!slurp_any("out2.sol", s2) || !parse_sol(s2, sf2, &why)) { r.fail("basis-reload-solution-file", "second run wrote no usable solution file"); return; }
      if (sf2.status1 != "OPTIMAL" || sf2.value != ref.value) { r.fail("basis-reload-differs", "second run (-B) reports '" + sf2.status1 + "' value " + qstr(sf2.value)); return; }
      r.label("basis:-b-then--B");
      // ... and it must be the optimal basis itself, not merely a starting point from which the second run finds the
      // optimum again: read it the way -B does and evaluate it exactly
      std::string berr;
      mpq_QSprob pb = sut_build(tm, R_COLS_ROWS, &berr);
      if (pb) {
        QSbasis *Bf = mpq_QSread_basis(pb, "out.bas");
        if (!Bf) r.fail("written-basis-unreadable", "mpq_QSread_basis rejects the file esolver -b wrote");
        else {
          if (Bf->nstruct == tm.n() && Bf->nrows == tm.m()) {
            std::string cs(Bf->cstat, Bf->nstruct), rs(Bf->rstat, Bf->nrows);
            BasisEval be;
            basis_eval(tm, cs, rs, be);
            if (be.singular) r.fail("written-basis-singular", "the basis file written with -b describes a singular basis: " + cs + "/" + rs);
            else if (!be.pfeas) r.fail("written-basis-not-optimal:primal", "the basis written with -b is not primal feasible when read back: cstat=" + cs + " rstat=" + rs);
            else if (!be.dfeas) {
              // (a wrong-signed reduced cost below the double tolerance is the recorded C12 finding, not esolver's doing)
              Q worst = 0;
              for (int k = 0; k < tm.n() + tm.m() && k < (int)be.dj.size(); k++) {
                char st = k < tm.n() ? cs[k] : rs[k - tm.n()];
                if (st == '1') continue;
                Q v = st == '0' ? Q(-be.dj[k]) : (st == '2' ? be.dj[k] : abs(be.dj[k]));
                if (v > worst) worst = v;
              }
              if (worst >= Q("1/1000000000")) r.fail("written-basis-not-optimal:dual", "the basis written with -b is not dual feasible when read back: cstat=" + cs + " rstat=" + rs);
              else r.label("written-basis:dual-infeasible-below-1e-9");
            } else r.label("written-basis:optimal-when-read-back");
          } else r.fail("written-basis-size", "basis read back has the wrong dimensions");
          mpq_QSfree_basis(Bf);
        }
        mpq_QSfree_prob(pb);
      }
      if (r.verdict != PASS) return;
    }
  }
  r.nontrivial = ref.truth == T_OPTIMAL && nopt >= 2;
  r.sample = cmd + "\n" + text.substr(0, 800);
}

void register_c19() { register_property({"C19", "", c19_gen, c19_run, 6, 300, false}); }

}  // namespace qsx

// fz_main.cpp -- libFuzzer targets for the readers (C11): LP, MPS and basis files.
// The target is selected with QSX_FUZZ_TARGET = lp | mps | bas | lpgz.  The semantic oracle
// sits inside the target: a problem the reader accepts must dump consistently, be writable
// in both formats, solvable (small ones, iteration cap) with certified answers, and freeable.
#include "qsx_io.hpp"
#include <unistd.h>
#include <zlib.h>

using namespace qsx;

static std::string g_target = "lp";
static long n_exec = 0, n_accepted = 0, n_rejected_late = 0, n_skipped_exp = 0, n_solved = 0, n_basis_ok = 0;
static std::set<uint64_t> g_distinct;
static std::string g_statfile;
static std::vector<std::string> g_samples;

static void write_stats() {
  if (g_statfile.empty()) return;
  std::string o = strprintf("{\"target\":\"%s\",\"executions\":%ld,\"accepted\":%ld,\"rejected_after_3_lines\":%ld,\"skipped_big_exponent\":%ld,"
                            "\"solved\":%ld,\"basis_accepted\":%ld,\"distinct_nontrivial\":%zu,\"samples\":[",
                            g_target.c_str(), n_exec, n_accepted, n_rejected_late, n_skipped_exp, n_solved, n_basis_ok, g_distinct.size());
  for (size_t k = 0; k < g_samples.size(); k++) {
    std::string e;
    for (unsigned char c : g_samples[k]) {
      if (c == '"') e += "\\\""; else if (c == '\\') e += "\\\\"; else if (c == '\n') e += "\\n";
      else if (c < 32 || c >= 127) { char b[8]; snprintf(b, sizeof b, "\\u%04x", c); e += b; } else e += (char)c;
    }
    o += std::string(k ? "," : "") + "\"" + e + "\"";
  }
  o += "]}\n";
  write_file(g_statfile, o);
}

[[noreturn]] static void oracle_fail(const std::string &what, const std::string &input) {
  fprintf(stderr, "QSX-ORACLE-FAILURE: %s\n--- input (%zu bytes)\n%.*s\n---\n", what.c_str(), input.size(), (int)std::min<size_t>(input.size(), 2000), input.c_str());
  write_stats();
  __builtin_trap();
}

static bool has_big_exponent(const std::string &s) {
  for (size_t i = 0; i + 1 < s.size(); i++) {
    if ((s[i] == 'e' || s[i] == 'E') && i > 0 && (isdigit((unsigned char)s[i - 1]) || s[i - 1] == '.')) {
      size_t j = i + 1;
      if (j < s.size() && (s[j] == '+' || s[j] == '-')) j++;
      // the number scanner keeps feeding digits into the exponent across '.' characters, so the
      // run of [0-9.] after the marker is what it will read as the exponent
      size_t d = 0, k2 = j;
      while (k2 < s.size() && (isdigit((unsigned char)s[k2]) || s[k2] == '.')) { if (s[k2] != '.') d++; k2++; }
      if (d >= 5) return true;
    }
  }
  return false;
}

static const char *kBasisProblems[] = {
  // 6 small fixed problems (LP text) against which basis files are read
  "MIN\n obj: x + y\nST\n c1: x + y >= 2\n c2: x - y <= 1\nEND\n",
  "MAX\n obj: 3 x + 2 y + 4 z\nST\n c1: 3 x + 2 y + z <= 12\n c2: 5 x + y = 10\nBOUNDS\n 2 <= x\n y free\n 1 <= z <= 10\nEND\n",
  "MIN\n obj: a\nST\n r1: a + b + c >= 1\n r2: a - c <= 5\n r3: b = 2\nBOUNDS\n -5 <= a <= 5\n c free\nEND\n",
  "MIN\n obj: x1 + x2 + x3 + x4\nST\n c1: x1 + x2 >= 1\n c2: x3 + x4 >= 1\n c3: x1 + x3 <= 3\n c4: x2 + x4 <= 3\nEND\n",
  "MAX\n obj: p\nST\n lim: p <= 7\nEND\n",
  "MIN\n obj: u - v\nST\n e1: u + v = 4\n e2: u - v >= -2\n e3: 2 u + v <= 9\nBOUNDS\n u free\n v free\nEND\n",
};
static const char *kMpsRanged =
  "NAME t\nROWS\n N obj\n G c1\n L c2\n E c3\nCOLUMNS\n x obj 1 c1 1\n x c2 1\n y obj 2 c1 1\n y c3 1\nRHS\n RHS c1 1 c2 8\n RHS c3 2\nRANGES\n RNG c1 4 c2 3\nBOUNDS\n UP BND x 6\nENDATA\n";

static void check_problem(mpq_QSprob p, const std::string &input) {
  Model m;
  std::string why;
  if (!sut_dump(p, m, &why, true)) oracle_fail("accepted problem is internally inconsistent: " + why, input);
  std::string path;
  if (m.n() > 0) {
    size_t mark = g_logbuf.size();
    // writers may legitimately refuse (e.g. no columns), but must not crash; what they write must be readable
    if (sut_write_file(p, "LP", 0, path, &why)) {
      mpq_QSprob q = sut_read_file(path, "LP");
      bool used = false;
      for (auto &r : m.rows) if (!r.a.empty()) used = true;
      bool allcols = true;
      for (int j = 0; j < m.n(); j++) { bool u = m.cols[j].obj != 0; for (auto &r : m.rows) if (r.a.count(j)) u = true; if (!u) allcols = false; }
      if (!q && used && allcols) {
        // precondition of C08 holds, so the output must be readable -- unless names collide after repair (reported by C08)
        bool ok = false;
        std::string text = read_file(path, &ok);
        oracle_fail("LP writer output of an accepted problem is rejected by the LP reader\nlog: " + g_logbuf.substr(mark, 600) + "\n" + text.substr(0, 1500), input);
      }
      if (q) mpq_QSfree_prob(q);
    }
    unlink(path.c_str());
    if (sut_write_file(p, "MPS", 0, path, &why)) { mpq_QSprob q = sut_read_file(path, "MPS"); if (q) mpq_QSfree_prob(q); }
    unlink(path.c_str());
  }
  if (m.n() <= 10 && m.m() <= 10 && m.n() > 0) {
    bool wellformed = true;
    for (auto &c : m.cols) if (c.lo > c.up) wellformed = false;
    for (auto &r : m.rows) if (r.sense == 'R' && r.range < 0) wellformed = false;
    // the library represents infinity in-band by +-1e150: data of that magnitude is not a well-formed LP for it
    auto big = [](const Q &v) { return !is_fin(v) || abs(v) * 1000000 >= PINF(); };
    for (auto &c : m.cols) if (big(c.obj)) wellformed = false;
    // a bound beyond the in-band infinity that is not the infinity value itself (8e157, say) is "infinite" for the
    // parts of the library that compare with >= and "finite" for those that compare for equality
    auto oddbound = [&](const Q &v) { return v != PINF() && v != NINF() && big(v); };
    for (auto &c : m.cols) if (oddbound(c.lo) || oddbound(c.up)) wellformed = false;
    for (auto &r : m.rows) if (r.sense == 'R' && oddbound(r.range)) wellformed = false;
    for (auto &r : m.rows) { if (big(r.rhs) || big(r.rhs + r.range)) wellformed = false; for (auto &kv : r.a) if (big(kv.second)) wellformed = false; }
    int st = 0;
    mpq_QSset_param(p, QS_PARAM_SIMPLEX_MAX_ITERATIONS, 200);
    int rv = mpq_QSopt_dual(p, &st);
    n_solved++;
    if (rv == 0 && st == QS_LP_OPTIMAL && wellformed) {
      Solution s;
      if (!sut_fetch_solution(p, s, &why)) oracle_fail("OPTIMAL but accessors fail: " + why, input);
      std::string sig;
      if (!check_solution(m, s, &sig, &why)) oracle_fail("OPTIMAL answer on a read problem fails its certificate (" + sig + "): " + why, input);
    }
  }
}

static void run_lp_mps(const std::string &text, const char *type, bool collector) {
  if (has_big_exponent(text)) { n_skipped_exp++; return; }
  ReadResult rr;
  sut_read_text(text, type, collector, rr);
  if (rr.p) {
    n_accepted++;
    if (g_distinct.insert(fnv64(text)).second && g_samples.size() < 4 && n_accepted % 50 == 1) g_samples.push_back(text.substr(0, 600));
    check_problem(rr.p, text);
    mpq_QSfree_prob(rr.p);
  } else if (rr.lines_consumed >= 3) {
    n_rejected_late++;
    g_distinct.insert(fnv64(text));
  }
}

extern "C" int LLVMFuzzerInitialize(int *, char ***) {
  const char *t = getenv("QSX_FUZZ_TARGET");
  if (t) g_target = t;
  const char *s = getenv("QSX_FUZZ_STATS");
  if (s) g_statfile = s;
  sut_global_init();
  std::string d = scratch_dir();
  if (chdir(d.c_str()) != 0) {}
  atexit(write_stats);
  return 0;
}

extern "C" int LLVMFuzzerTestOneInput(const uint8_t *data, size_t size) {
  n_exec++;
  sut_case_reset();
  if (size == 0) return 0;
  if (g_target == "lp" || g_target == "mps") {
    bool collector = data[0] & 1;
    std::string text((const char *)data + 1, size - 1);
    run_lp_mps(text, g_target == "lp" ? "LP" : "MPS", collector);
    return 0;
  }
  if (g_target == "lpgz") {
    // compressed path: the bytes are deflated into name.lp.gz and read through QSread_prob
    std::string text((const char *)data + 1, size - 1);
    if (has_big_exponent(text)) { n_skipped_exp++; return 0; }
    const char *name = (data[0] & 1) ? "f.mps.gz" : "f.lp.gz";
    gzFile g = gzopen(name, "wb");
    if (!g) return 0;
    gzwrite(g, text.data(), (unsigned)text.size());
    gzclose(g);
    mpq_QSprob p = mpq_QSread_prob(name, (data[0] & 1) ? "MPS" : "LP");
    if (p) { n_accepted++; g_distinct.insert(fnv64(text)); check_problem(p, text); mpq_QSfree_prob(p); }
    unlink(name);
    return 0;
  }
  // basis files
  int which = data[0] % 7;
  std::string text((const char *)data + 1, size - 1);
  ReadResult rr;
  if (which == 6) sut_read_text(kMpsRanged, "MPS", false, rr); else sut_read_text(kBasisProblems[which], "LP", false, rr);
  if (!rr.p) oracle_fail("fixed base problem rejected", text);
  write_file("f.bas", text);
  QSbasis *B = mpq_QSread_basis(rr.p, "f.bas");
  if (B) {
    n_basis_ok++;
    n_accepted++;
    if (g_distinct.insert(fnv64(text)).second && g_samples.size() < 4) g_samples.push_back(text.substr(0, 300));
    int n = mpq_QSget_colcount(rr.p), m = mpq_QSget_rowcount(rr.p);
    if (B->nstruct != n || B->nrows != m) oracle_fail("returned basis has the wrong dimensions", text);
    int nb = 0;
    for (int j = 0; j < n; j++) { char c = B->cstat[j]; if (c == QS_COL_BSTAT_BASIC) nb++; else if (c != QS_COL_BSTAT_LOWER && c != QS_COL_BSTAT_UPPER && c != QS_COL_BSTAT_FREE) oracle_fail("returned basis has an illegal column status", text); }
    for (int i = 0; i < m; i++) { char c = B->rstat[i]; if (c == QS_ROW_BSTAT_BASIC) nb++; else if (c != QS_ROW_BSTAT_LOWER && c != QS_ROW_BSTAT_UPPER) oracle_fail("returned basis has an illegal row status", text); }
    // loading and solving from it must work
    if (mpq_QSload_basis(rr.p, B) == 0) {
      int st = 0;
      mpq_QSset_param(rr.p, QS_PARAM_SIMPLEX_MAX_ITERATIONS, 200);
      mpq_QSopt_primal(rr.p, &st);
      n_solved++;
    }
    mpq_QSfree_basis(B);
  } else if (text.size() > 20) n_rejected_late++;
  // the combined entry point
  mpq_QSread_and_load_basis(rr.p, "f.bas");
  mpq_QSfree_prob(rr.p);
  unlink("f.bas");
  return 0;
}
